(* CompletionAtPos inside attribute values: the CompletionAtPos methods of the expression kinds
   (decoder/expr_{keyword,literal_type,literal_value,one_of,list,set,tuple,map,object,any}_completion.go,
   the completion parts of expr_any_{operator,template,conditional,for,index}.go, the helpers of
   decoder/expression.go and decoder/expression_candidates.go used there).

   Modelled completely: keyword, boolean, literal-type and literal-value candidates, the candidates that stand for
   an empty list / set / tuple / map / object (text and snippet through Model/Snippet.v), object attribute names
   (prefix, declared attributes, edit range), map item candidates, and the whole descent - which element, item
   value, key expression, operand, template part, conditional branch, for clause or index key the cursor
   belongs to, including the recovery of text the parser dropped (bytes left of the cursor up to a comma,
   bracket, brace, newline, equals sign or parenthesis).

   Reference candidates: the walk over the collected declarations is Model/Ref.v (match_walk, Target.Address); this
   file supplies what Reference.CompletionAtPos hands to it at every leaf - expected scope and type (of the
   constraint, the operand, the element, the parameter ...), typed text, edit range - through the parameter [refs],
   so that the addresses offered are compared exactly and in order.  Function candidates likewise: Model/FuncCands.v (matchingFunctions) enumerates them from the typed text and
   the expected return type this file supplies, through the parameter [fns].  Where a case carries no declarations / return
   types (or go-cty's verdict for a pair of types is missing), a [VOpq kind range] item stands for any number of candidates
   of that kind with that edit range.

   Function calls: the argument slot the cursor belongs to (with the recovery of a trailing comma) and the
   parameter type it is completed against.

   Type declarations (TypeDeclaration.CompletionAtPos): type names by typed prefix, inside list()/set()/map(),
   object({...}) items and tuple([...]) elements, with the recovery of a half-typed item.

   Not modelled (the result is [vskip] and the position is not compared): expressions the serialiser files under
   "other" (splat, relative traversals, syntax errors).

   Positions are compared by byte offsets (and lines where the code looks at lines); columns are the
   business of the scanner-table oracle of C02. *)
From Coq Require Import String Ascii List ZArith Bool.
From HV Require Import Base.Sexp Base.Str Base.SortSpec Base.Pos Model.Addr Model.DepKeys Model.Schema Model.Ast Model.Merge
                       Model.Ref Model.Collect Model.Origins Model.ValueTargets Model.BodyQueries Model.ValueTokens
                       Model.Completion Model.Snippet Model.ValueHover Model.FuncCands Gen.Consts.
Import ListNotations.
Open Scope list_scope.
Open Scope string_scope.

(* lang.CandidateKind: kAttribute ... kFunction come from Gen/Consts.v, regenerated from /repo on every run *)

Inductive vitem :=
| VC (kind : Z) (label : option string) (newt snip : option string) (trig : option bool) (sb eb : Z)
| VOpq (kind : Z) (sb eb : Z).

Definition vi_sb (i : vitem) : Z := match i with VC _ _ _ _ _ s _ => s | VOpq _ s _ => s end.
Definition vi_eb (i : vitem) : Z := match i with VC _ _ _ _ _ _ e => e | VOpq _ _ e => e end.
Definition vi_kind (i : vitem) : Z := match i with VC k _ _ _ _ _ _ => k | VOpq k _ _ => k end.

(* None = out of fuel; Some None = not modelled here; Some (Some l) = the candidate list *)
Definition vres := option (option (list vitem)).
Definition vret (l : list vitem) : vres := Some (Some l).
Definition vnil : vres := Some (Some []).
Definition vskip : vres := Some None.

Definition vapp (a b : vres) : vres :=
  match a, b with
  | None, _ | _, None => None
  | Some None, _ | _, Some None => Some None
  | Some (Some x), Some (Some y) => Some (Some (List.app x y))
  end.

(* ---------------- bytes ---------------- *)
Definition bytes := list ascii.
Definition b_eq (a : ascii) (c : string) : bool := match c with String c' EmptyString => Ascii.eqb a c' | _ => false end.
Definition byte_n (a : ascii) : nat := nat_of_ascii a.

Fixpoint string_of_bytes (l : bytes) : string := match l with [] => "" | a :: r => String a (string_of_bytes r) end.

(* recoverLeftBytes for predicates that only accept ASCII characters: scanning runes from the cursor to the
   left and calling f(end offset of the rune, rune) is then the same as scanning bytes *)
Fixpoint rl_go (pred : Z -> ascii -> bool) (revpre : bytes) (off : Z) (acc : bytes) : option bytes :=
  match revpre with
  | [] => None
  | b :: r => if pred off b then Some (b :: acc) else rl_go pred r (off - 1) (b :: acc)
  end.

Definition recover_left (file : bytes) (p : Z) (pred : Z -> ascii -> bool) : bytes :=
  match rl_go pred (rev (firstn (Z.to_nat p) file)) p [] with Some l => l | None => [] end.

(* bytes.TrimRight(b, cutset) with an ASCII cutset *)
Definition trim_right_set (cut : ascii -> bool) (l : bytes) : bytes :=
  rev ((fix go (r : bytes) : bytes := match r with a :: r' => if cut a then go r' else r | [] => [] end) (rev l)).

Definition is_blank_tab (a : ascii) : bool := b_eq a " " || Nat.eqb (byte_n a) 9.
Definition is_blank_tab_nl (a : ascii) : bool := is_blank_tab a || Nat.eqb (byte_n a) 10.

(* unicode.IsSpace on the UTF-8 encoding: length of the white-space character the bytes start with, 0 if none *)
Definition space_len (l : bytes) : nat :=
  match map byte_n l with
  | a :: r =>
      if (Nat.leb 9 a && Nat.leb a 13) || Nat.eqb a 32 then 1
      else match a, r with
           | 194, b :: _ => if Nat.eqb b 133 || Nat.eqb b 160 then 2 else 0                  (* U+0085, U+00A0 *)
           | 225, 154 :: 128 :: _ => 3                                                        (* U+1680 *)
           | 226, 128 :: c :: _ => if (Nat.leb 128 c && Nat.leb c 138) || Nat.eqb c 168 || Nat.eqb c 169 || Nat.eqb c 175
                                   then 3 else 0                                              (* U+2000-200A, 2028, 2029, 202F *)
           | 226, 129 :: 159 :: _ => 3                                                        (* U+205F *)
           | 227, 128 :: 128 :: _ => 3                                                        (* U+3000 *)
           | _, _ => 0
           end
  | [] => 0
  end%nat.

(* the same looking at the END of the bytes (utf8.DecodeLastRune): argument = the bytes reversed *)
Definition space_len_rev (rl : bytes) : nat :=
  match map byte_n rl with
  | a :: r =>
      if (Nat.leb 9 a && Nat.leb a 13) || Nat.eqb a 32 then 1
      else match a, r with
           | (133 | 160), 194 :: _ => 2
           | 128, 154 :: 225 :: _ => 3
           | c, 128 :: 226 :: _ => if (Nat.leb 128 c && Nat.leb c 138) || Nat.eqb c 168 || Nat.eqb c 169 || Nat.eqb c 175 then 3 else 0
           | 159, 129 :: 226 :: _ => 3
           | 128, 128 :: 227 :: _ => 3
           | _, _ => 0
           end
  | [] => 0
  end%nat.

(* bytes.TrimLeftFunc / TrimRightFunc with "white space or one of the ASCII characters [extra]" *)
Fixpoint trim_left_f (extra : ascii -> bool) (fuel : nat) (l : bytes) : bytes :=
  match fuel with
  | O => l
  | S n =>
      match l with
      | [] => []
      | a :: r => if extra a then trim_left_f extra n r
                  else match space_len l with O => l | k => trim_left_f extra n (skipn k l) end
      end
  end.

Fixpoint trim_right_rev (extra : ascii -> bool) (fuel : nat) (rl : bytes) : bytes :=
  match fuel with
  | O => rl
  | S n =>
      match rl with
      | [] => []
      | a :: r => if extra a then trim_right_rev extra n r
                  else match space_len_rev rl with O => rl | k => trim_right_rev extra n (skipn k rl) end
      end
  end.

Definition trim_left_space (extra : ascii -> bool) (l : bytes) : bytes := trim_left_f extra (S (length l)) l.
Definition trim_right_space (extra : ascii -> bool) (l : bytes) : bytes := rev (trim_right_rev extra (S (length l)) (rev l)).
Definition trim_space (extra : ascii -> bool) (l : bytes) : bytes := trim_right_space extra (trim_left_space extra l).

Definition no_extra (a : ascii) : bool := false.
Definition is_quote (a : ascii) : bool := Nat.eqb (byte_n a) 34.
Definition is_item_term (a : ascii) : bool := Nat.eqb (byte_n a) 10 || b_eq a "," || b_eq a "{".

Definition last_byte (l : bytes) : option ascii := match rev l with a :: _ => Some a | [] => None end.
Definition last_is (l : bytes) (c : string) : bool := match last_byte l with Some a => b_eq a c | None => false end.

Fixpoint index_where (f : ascii -> bool) (l : bytes) (i : nat) : option nat :=
  match l with [] => None | a :: r => if f a then Some i else index_where f r (S i) end.

Fixpoint bytes_prefix (p s : string) : bool :=
  match p, s with
  | EmptyString, _ => true
  | String a p', String b s' => Ascii.eqb a b && bytes_prefix p' s'
  | String _ _, EmptyString => false
  end.

(* ---------------- expressions as the completion code sees them ---------------- *)
Inductive cexpr := CEmpty | CExpr (e : sexpr).

Definition pb (p : pos) : Z := p_byte p.
Definition rs (r : range) : Z := p_byte (r_start r).
Definition re (r : range) : Z := p_byte (r_end r).
(* expr.Range().ContainsPos(pos) || expr.Range().End.Byte == pos.Byte *)
Definition at_or_end (r : range) (p : pos) : bool := contains_pos r p || Z.eqb (re r) (pb p).

Definition kind_for_type (t : ty) : Z :=
  match t with
  | TBool => kBool | TStr => kString | TNum => kNumber | TList _ => kList | TSet _ => kSet
  | TTuple _ => kTuple | TMap _ => kMap | TObject _ => kObject | _ => 0
  end.

(* newTextForLiteralType / snippetForLiteralType (decoder/expression_candidates.go) *)
Fixpoint lt_newtext (fuel : nat) (t : ty) : string :=
  match fuel with
  | O => ""
  | S n =>
      match t with
      | TStr => """"""
      | TBool => "false"
      | TNum => "1"
      | TList e | TSet e => "[ " ++ lt_newtext n e ++ " ]"
      | TMap e => "{" ++ nl ++ "  ""key"" = " ++ lt_newtext n e ++ nl ++ "}"
      | TObject ats => "{" ++ nl ++ String.concat "" (map (fun a => "  " ++ fst a ++ " = " ++ lt_newtext n (fst (snd a)) ++ nl) ats) ++ "}"
      | TTuple [e] => "[ " ++ lt_newtext n e ++ " ]"
      | TTuple ts => "[" ++ nl ++ String.concat "" (map (lt_newtext n) ts) ++ "]"
      | _ => ""
      end
  end.

(* returns the text and the next placeholder *)
Fixpoint lt_snippet (fuel : nat) (t : ty) (ph : Z) (lvl : nat) : string * Z :=
  match fuel with
  | O => ("", ph)
  | S n =>
      let stop (d : string) := "${" ++ string_of_Z ph ++ (if String.eqb d "" then "" else ":" ++ d) ++ "}" in
      match t with
      | TStr => ("""" ++ stop "value" ++ """", ph + 1)%Z
      | TBool => (stop "false", ph + 1)%Z
      | TNum => (stop "1", ph + 1)%Z
      | TDyn => (stop "", ph + 1)%Z
      | TMap e =>
          let '(s, ph') := lt_snippet n e (ph + 1) (S lvl) in
          ("{" ++ nl ++ indent (S lvl) ++ """" ++ stop "key" ++ """ = " ++ s ++ nl ++ indent lvl ++ "}", ph')
      | TList e | TSet e => let '(s, ph') := lt_snippet n e ph lvl in ("[ " ++ s ++ " ]", ph')
      | TObject ats =>
          let '(s, ph') := fold_left (fun acc a => let '(txt, p) := acc in
                                         let '(s, p') := lt_snippet n (fst (snd a)) p (S lvl) in
                                         (txt ++ indent (S lvl) ++ fst a ++ " = " ++ s ++ nl, p')) ats ("", ph) in
          ("{" ++ nl ++ s ++ indent lvl ++ "}", ph')
      | TTuple [e] => let '(s, ph') := lt_snippet n e ph lvl in ("[ " ++ s ++ " ]", ph')
      | TTuple ts =>
          let '(s, ph') := fold_left (fun acc e => let '(txt, p) := acc in
                                         let '(s, p') := lt_snippet n e p (S lvl) in (txt ++ s, p')) ts ("", ph) in
          ("[" ++ nl ++ s ++ "]", ph')
      | _ => ("", ph)
      end
  end.

(* ---------------- type declarations (decoder/expr_type_declaration_completion.go) ---------------- *)
Definition paren_table := list (range * (range * range)).     (* call -> (opening parenthesis, closing parenthesis) *)
Fixpoint lookup_parens (l : paren_table) (r : range) : option (range * range) :=
  match l with [] => None | (k, v) :: rest => if range_eqb k r then Some v else lookup_parens rest r end.

Definition td_item (k : Z) (label : option string) (newt snip : string) (trig : bool) (sb eb : Z) : vitem :=
  VC k label (Some newt) (Some snip) (Some trig) sb eb.

(* allTypeDeclarationsAsCandidates: the type names the typed text is a prefix of, primitive ones first *)
Definition all_type_decls (prefix : string) (sb eb : Z) : list vitem :=
  let on (name : string) (i : vitem) := if bytes_prefix prefix name then [i] else [] in
  on "bool" (td_item kBool (Some "bool") "bool" "bool" false sb eb) ++
  on "number" (td_item kNumber (Some "number") "number" "number" false sb eb) ++
  on "string" (td_item kString (Some "string") "string" "string" false sb eb) ++
  on "list" (td_item kList None "list()" "list(${0})" true sb eb) ++
  on "set" (td_item kSet None "set()" "set(${0})" true sb eb) ++
  on "tuple" (td_item kTuple None "tuple([])" "tuple([ ${0} ])" true sb eb) ++
  on "map" (td_item kMap None "map()" "map(${0})" true sb eb) ++
  on "object" (td_item kObject None ("object({" ++ nl ++ nl ++ "})") ("object({" ++ nl ++ "  ${1:name} = ${2}" ++ nl ++ "})") false sb eb).

Definition td_attr_item (sb eb : Z) : vitem := td_item kAttribute (Some "name = type") "name = " "${1:name} = " false sb eb.

Section TypeDecl.
  Variable file : bytes.
  Variable opens : range_table.
  Variable empties : list range.
  Variable cparens : paren_table.
  Variable p : pos.
  Variable rec_td : cexpr -> vres.

  Definition tP : Z := pb p.
  Definition td_norm (e : sexpr) : cexpr :=
    match se_node e with NLit _ => if existsb (range_eqb (se_rng e)) empties then CEmpty else CExpr e | _ => CExpr e end.
  Definition td_slice (a b : Z) : bytes :=
    let len := Z.of_nat (length file) in
    let clamp z := if Z.ltb z 0 then 0%Z else if Z.ltb len z then len else z in
    let s := clamp a in let e := clamp b in let e := if Z.ltb e s then s else e in
    firstn (Z.to_nat (e - s)) (skipn (Z.to_nat s) file).

  Inductive td_scan := DReturn (r : vres) | DFall (recovery : Z) (last_line next_line : option Z).

  Fixpoint td_items (items : list sitem) (recovery : Z) (last_line : option Z) : td_scan :=
    match items with
    | [] => DFall recovery last_line None
    | SItem krng k v :: r =>
        if Z.leb (re krng) tP && Z.ltb tP (rs (se_rng v)) then DReturn vnil
        else if Z.ltb tP (rs krng) then DFall recovery last_line (Some (p_line (r_start krng)))
        else if contains_pos krng p then DReturn vnil
        else if at_or_end (se_rng v) p then DReturn (rec_td (td_norm v))
        else td_items r (re (se_rng v)) (Some (p_line (r_end (se_rng v))))
    end.

  Definition object_td (o c : range) (args : list sexpr) : vres :=
    match args with
    | [] => vret [td_item kObject None ("{" ++ nl ++ nl ++ "}") ("{" ++ nl ++ "  ${1:name} = ${2}" ++ nl ++ "}") false (re o) (rs c)]
    | [a] =>
        match se_node a with
        | NObject items =>
            if negb (contains_pos (se_rng a) p) then vnil
            else
              let open_end := match lookup_range opens (se_rng a) with Some ob => re ob | None => 0%Z end in
              let early : option vres :=
                match items with
                | [] =>
                    match trim_space no_extra (td_slice open_end tP) with
                    | [] => Some (vret [td_attr_item tP tP])
                    | rem => if last_is rem "=" then Some (vret (all_type_decls "" tP tP)) else None
                    end
                | _ => None
                end in
              match early with
              | Some r => r
              | None =>
                  match td_items items open_end None with
                  | DReturn r => r
                  | DFall recovery last_line next_line =>
                      let recovered := recover_left file tP (fun off b => is_item_term b && Z.ltb recovery off) in
                      match trim_right_set is_blank_tab recovered with
                      | [] => vnil
                      | [b] =>
                          if is_item_term b then
                            if match next_line with Some l => Z.eqb l (p_line p) | None => false end then vnil
                            else if match last_line with Some l => Z.eqb l (p_line p) && negb (b_eq b ",") | None => false end then vnil
                            else vret [td_attr_item tP tP]
                          else if b_eq b "=" then vret (all_type_decls "" tP tP) else vnil
                      | trimmed => if last_is trimmed "=" then vret (all_type_decls "" tP tP) else vnil
                      end
                  end
              end
        | _ => vnil
        end
    | _ => vnil
    end.

  Fixpoint td_elem_at (elems : list sexpr) : option sexpr :=
    match elems with [] => None | x :: r => if at_or_end (se_rng x) p then Some x else td_elem_at r end.

  Definition tuple_td (o c : range) (args : list sexpr) : vres :=
    match args with
    | [] => vret [td_item kTuple None "[]" "[ ${0} ]" false (re o) (rs c)]
    | [a] =>
        match se_node a with
        | NTuple elems =>
            match td_elem_at elems with
            | Some x => rec_td (td_norm x)
            | None =>
                let open_end := match lookup_range opens (se_rng a) with Some ob => re ob | None => 0%Z end in
                let close := (re (se_rng a) - 1)%Z in
                if (Z.leb open_end tP && Z.ltb tP close) || Z.eqb close tP then vret (all_type_decls "" tP tP) else vnil
            end
        | _ => vnil
        end
    | _ => vnil
    end.

  Definition type_decl_cands (e : cexpr) : vres :=
    match e with
    | CEmpty => vret (all_type_decls "" tP tP)
    | CExpr x =>
        match se_node x with
        | NTrav root [_] _ =>
            let plen := (tP - rs (se_rng x))%Z in
            if Z.ltb plen 0 || Z.ltb (Z.of_nat (String.length root)) plen then vnil
            else vret (all_type_decls (String.substring 0 (Z.to_nat plen) root) (rs (se_rng x)) (re (se_rng x)))
        | NCall name nrng args =>
            if contains_pos nrng p || Z.eqb (re nrng) tP then
              vret (all_type_decls (String.substring 0 (Z.to_nat (tP - rs nrng)) name) (rs (se_rng x)) (re (se_rng x)))
            else
              match lookup_parens cparens (se_rng x) with
              | None => vnil
              | Some (o, c) =>
                  if Z.leb (re o) tP && Z.ltb tP (re c) then
                    if is_elem_type_name name then
                      match args with
                      | [] => vret (all_type_decls "" (re o) (rs c))
                      | [a] => if contains_pos (se_rng a) p then rec_td (td_norm a) else vnil
                      | _ => vnil
                      end
                    else if String.eqb name "object" then object_td o c args
                    else if String.eqb name "tuple" then tuple_td o c args
                    else vnil
                  else vnil
              end
        | _ => vnil
        end
    end.
End TypeDecl.

Fixpoint type_cands (file : bytes) (opens : range_table) (empties : list range) (cparens : paren_table) (p : pos) (fuel : nat) (e : cexpr) : vres :=
  match fuel with
  | O => None
  | S n => type_decl_cands file opens empties cparens p (type_cands file opens empties cparens p n) e
  end.

(* the boolean a serialised cty value stands for *)
Definition bool_of_val (v : sexp) : option bool :=
  match v with SList [SAtom a; b] => if String.eqb a "bool" then as_bool b else None | _ => None end.

Section Descent.
  Variable prefill : bool.
  Variable file : bytes.
  Variable opens : range_table.          (* tuple / object constructor -> its opening bracket *)
  Variable empties : list range.         (* literal expressions whose value is cty.DynamicVal (isEmptyExpression) *)
  Variable vals : list (range * sexp).
  Variable funcs : fsigs.                (* known functions: name -> (parameter types, variadic parameter type) *)
  Variable parens : range_table.         (* call expression -> from its opening to its closing parenthesis *)
  Variable fname : string.               (* the file being edited *)
  (* Reference.CompletionAtPos's walk over the collected declarations (Model/Ref.v match_walk + Target.Address), as a
     function of (expected scope, expected type, typed text, edit range): the addresses offered, in order; None where
     the case carries no declarations (the references are then compared by place and edit range only) *)
  Variable refs : string -> ty -> string -> range -> option (list string).
  (* functionExpr.matchingFunctions (Model/FuncCands.v) as a function of (typed text, expected return type): the
     candidates (label, text, snippet) in order; None where the case carries no return types *)
  Variable fns : string -> ty -> option (list fcand).
  Variable p : pos.
  Variable rec : constraint -> cexpr -> vres.
  Variable rec_td : cexpr -> vres.       (* type declarations *)

  Definition P : Z := pb p.
  Definition at_cursor (k : Z) (label newt snip : option string) (trig : option bool) : vitem := VC k label newt snip trig P P.

  Definition is_empty_expr (e : sexpr) : bool :=
    match se_node e with NLit _ => existsb (range_eqb (se_rng e)) empties | _ => false end.
  Definition norm (e : sexpr) : cexpr := if is_empty_expr e then CEmpty else CExpr e.

  Definition byte_at (i : Z) : option ascii := if Z.ltb i 0 then None else nth_error file (Z.to_nat i).
  (* pos.Byte - end == 1 and the byte in between is a dot *)
  Definition dot_behind (r : range) : bool :=
    Z.eqb (P - re r) 1 && match byte_at (re r) with Some a => b_eq a "." | None => false end.

  Definition slice (a b : Z) : bytes :=
    let len := Z.of_nat (length file) in
    let clamp z := if Z.ltb z 0 then 0%Z else if Z.ltb len z then len else z in
    let s := clamp a in let e := clamp b in let e := if Z.ltb e s then s else e in
    firstn (Z.to_nat (e - s)) (skipn (Z.to_nat s) file).

  (* text / snippet / trigger of EmptyCompletionData(ctx, 1, 0); None where Model/Snippet.v does not render *)
  Definition ecd_item (k : Z) (label : option string) (c : constraint) : vitem :=
    match ecd prefill 40 c 1 0 with
    | Some d => at_cursor k label (Some (cd_new d)) (Some (render (cd_snip d))) (Some (cd_trigger d))
    | None => at_cursor k label None None None
    end.

  (* ---- keyword ---- *)
  Definition keyword_cands (kw : string) (e : cexpr) : vres :=
    match e with
    | CEmpty => vret [at_cursor kKeyword (Some kw) (Some kw) (Some kw) (Some false)]
    | CExpr x =>
        match se_node x with
        | NTrav root [TSRoot rr] _ =>
            let plen := (P - rs rr)%Z in
            if Z.ltb plen 0 || Z.ltb (Z.of_nat (String.length root)) plen then vnil
            else if bytes_prefix (String.substring 0 (Z.to_nat plen) root) kw
                 then vret [VC kKeyword (Some kw) (Some kw) (Some kw) (Some false) (rs (se_rng x)) (re (se_rng x))]
                 else vnil
        | _ => vnil
        end
    end.

  (* ---- booleans ---- *)
  Definition bool_items (allow_false allow_true : bool) (prefix : string) (sb eb : Z) : list vitem :=
    List.app (if allow_false && bytes_prefix prefix "false" then [VC kBool (Some "false") (Some "false") (Some "false") (Some false) sb eb] else [])
    (if allow_true && bytes_prefix prefix "true" then [VC kBool (Some "true") (Some "true") (Some "true") (Some false) sb eb] else []).

  Definition bool_value (e : sexpr) : option bool :=
    match value_of vals e with Some v => bool_of_val v | None => None end.

  (* completeBoolAtPos of LiteralType and LiteralValue *)
  Definition complete_bool (allow_false allow_true : bool) (x : sexpr) : vres :=
    match se_node x with
    | NTrav root _ _ =>
        let plen := (P - rs (se_rng x))%Z in
        if Z.ltb plen 0 || Z.ltb (Z.of_nat (String.length root)) plen then vnil
        else vret (bool_items allow_false allow_true (String.substring 0 (Z.to_nat plen) root) (rs (se_rng x)) (re (se_rng x)))
    | NLit TBool =>
        match bool_value x with
        | Some b =>
            let value := if b then "true" else "false" in
            let plen := (P - rs (se_rng x))%Z in
            if Z.ltb plen 0 || Z.ltb (Z.of_nat (String.length value)) plen then vnil
            else vret (bool_items allow_false allow_true (String.substring 0 (Z.to_nat plen) value) (rs (se_rng x)) (re (se_rng x)))
        | None => vskip
        end
    | _ => vnil
    end.

  (* ---- literal type ---- *)
  Definition literal_type_cands (t : ty) (skip : bool) (e : cexpr) : vres :=
    match e with
    | CEmpty =>
        if is_primitive t then (match t with TBool => vret (bool_items true true "" P P) | _ => vnil end)
        else if is_dyn t then vnil
        else if skip then vnil
        else vret [at_cursor (kind_for_type t) None (Some (lt_newtext 40 t)) (Some (fst (lt_snippet 40 t 1 0))) (Some false)]
    | CExpr x =>
        match t with
        | TBool => complete_bool true true x
        | _ =>
            if skip then vnil
            else match t, se_node x with
                 | (TList _ | TSet _ | TTuple _), NTuple _
                 | (TMap _ | TObject _), NObject _ =>
                     match expand_lit_type t with Some c => rec c e | None => vnil end
                 | _, _ => vnil
                 end
        end
    end.

  (* ---- literal value ---- *)
  Definition literal_value_cands (v : sexp) (t : ty) (e : cexpr) : vres :=
    match e with
    | CEmpty => vret [at_cursor (kind_for_type t) None None None None]
    | CExpr x =>
        match t with
        | TBool =>
            match bool_of_val v with Some bv => complete_bool (negb bv) bv x | None => vskip end
        | _ =>
            let r := se_rng x in
            let eb1 := if Z.eqb (p_line (r_end r)) (p_line p) then re r else P in
            let eb2 := if Z.leb (rs r) P && Z.ltb P eb1 then eb1 else P in
            let sb := if Z.ltb P (rs r) then P else rs r in
            vret [VC (kind_for_type t) None None None None sb eb2]
        end
    end.

  (* ---- one of ---- *)
  Fixpoint one_of_cands (cs : list constraint) (e : cexpr) : vres :=
    match cs with [] => vnil | c :: r => vapp (rec c e) (one_of_cands r e) end.

  (* ---- list / set ---- *)
  Definition between_brackets (x : sexpr) (incl_close : bool) : option (Z * Z) :=
    match lookup_range opens (se_rng x) with
    | Some o => Some (re o, if incl_close then re (se_rng x) else (re (se_rng x) - 1)%Z)
    | None => None
    end.
  Definition inside (b : option (Z * Z)) : bool :=
    match b with Some (s, e) => Z.leb s P && Z.ltb P e | None => false end.

  (* the element whose completion answers; None = a new (empty) element at the cursor *)
  Fixpoint elem_at (elems : list sexpr) : option sexpr :=
    match elems with
    | [] => None
    | x :: r =>
        if is_empty_expr x then None
        else if Z.ltb P (rs (se_rng x)) then None
        else if at_or_end (se_rng x) p then Some x
        else if dot_behind (se_rng x) then Some x
        else elem_at r
    end.

  Definition list_cands (k : Z) (self : constraint) (elem : option constraint) (e : cexpr) : vres :=
    match e with
    | CEmpty => vret [ecd_item k None self]
    | CExpr x =>
        match se_node x, elem with
        | NTuple elems, Some ec =>
            if inside (between_brackets x true) then
              match elems with
              | [] => rec ec CEmpty
              | _ => match elem_at elems with Some y => rec ec (CExpr y) | None => rec ec CEmpty end
              end
            else vnil
        | _, _ => vnil
        end
    end.

  (* ---- tuple ---- *)
  Inductive tuple_scan := TFound (x : sexpr) (c : constraint) | TDone (last_end : Z) (last_idx : nat).

  Fixpoint tuple_at (i : nat) (elems : list sexpr) (cs : list constraint) (last_end : Z) (last_idx : nat) : tuple_scan :=
    match elems, cs with
    | x :: r, c :: cr =>
        if is_empty_expr x then TDone last_end last_idx
        else if Z.ltb P (rs (se_rng x)) then TDone last_end last_idx
        else if at_or_end (se_rng x) p then TFound x c
        else if dot_behind (se_rng x) then TFound x c
        else tuple_at (S i) r cr (re (se_rng x)) i
    | _, _ => TDone last_end last_idx
    end.

  Definition tuple_cands (self : constraint) (cs : list constraint) (e : cexpr) : vres :=
    match e with
    | CEmpty => vret [ecd_item kTuple None self]
    | CExpr x =>
        match se_node x with
        | NTuple elems =>
            match cs with
            | [] => vnil
            | c0 :: _ =>
                if negb (inside (between_brackets x true)) then vnil
                else match elems with
                | [] => rec c0 CEmpty
                | _ =>
                    if Nat.ltb (length cs) (length elems) then vnil
                    else
                      let open_start := match lookup_range opens (se_rng x) with Some o => rs o | None => 0%Z end in
                      match tuple_at 0 elems cs open_start 0 with
                      | TFound y c => rec c (CExpr y)
                      | TDone last_end last_idx =>
                          if Z.leb P last_end then vnil
                          else if Nat.eqb (length elems) (length cs) then vnil
                          else
                            let recovered := recover_left file P (fun off b => (b_eq b "[" || b_eq b ",") && Z.ltb last_end off) in
                            let trimmed := trim_right_set is_blank_tab_nl recovered in
                            match trimmed with
                            | [] => vnil
                            | _ =>
                                let s := string_of_bytes trimmed in
                                let idx := if String.eqb s "," then S last_idx else if String.eqb s "[" then 0%nat else length elems in
                                match nth_error cs idx with Some c => rec c CEmpty | None => None end
                            end
                      end
                end
            end
        | _ => vnil
        end
    end.

  (* ---- map ---- *)
  Definition key_parens (k : skey) : option sexpr := match k with SKParens pe => Some pe | _ => None end.

  Inductive item_scan := IReturn (r : vres) | IFall (recovery : Z).

  Fixpoint map_items (elem : constraint) (interp : bool) (items : list sitem) (recovery : Z) : item_scan :=
    match items with
    | [] => IFall recovery
    | SItem krng k v :: r =>
        if Z.leb (re krng) P && Z.ltb P (rs (se_rng v)) then IReturn vnil
        else if Z.ltb P (rs krng) then IFall recovery
        else if contains_pos krng p then
          IReturn (match key_parens k, interp with
                   | Some pe, true => rec (CAny TStr false) (norm pe)
                   | _, _ => vnil
                   end)
        else if at_or_end (se_rng v) p then IReturn (rec elem (norm v))
        else map_items elem interp r (re (se_rng v))
    end.

  Definition map_cands (self : constraint) (elem : option constraint) (interp : bool) (e : cexpr) : vres :=
    match e with
    | CEmpty => vret [ecd_item kMap None self]
    | CExpr x =>
        match se_node x with
        | NObject items =>
            if negb (inside (between_brackets x false)) then vnil
            else match elem with
            | None => vnil
            | Some ec =>
                let item_cand : vitem :=
                  match ecd prefill 40 ec 2 0 with
                  | Some d => at_cursor kAttribute None (Some ("""key"" = " ++ cd_new d)) (Some ("""${1:key}"" = " ++ render (cd_snip d))) (Some false)
                  | None => at_cursor kAttribute None None None (Some false)
                  end in
                let open_end := match lookup_range opens (se_rng x) with Some o => re o | None => 0%Z end in
                let open_start := match lookup_range opens (se_rng x) with Some o => rs o | None => 0%Z end in
                let early : option vres :=
                  match items with
                  | [] =>
                      let remaining := trim_space no_extra (slice open_end (re (se_rng x) - 1)) in
                      match remaining with
                      | [] => Some (vret [item_cand])
                      | _ => if last_is remaining "=" then Some (rec ec CEmpty) else None
                      end
                  | _ => None
                  end in
                match early with
                | Some r => r
                | None =>
                    match map_items ec interp items open_start with
                    | IReturn r => r
                    | IFall recovery =>
                        let recovered := recover_left file P (fun off b => is_item_term b && Z.ltb recovery off) in
                        let trimmed := trim_right_set is_blank_tab recovered in
                        match trimmed with
                        | [] => vret [item_cand]
                        | [a] => if is_item_term a then vret [item_cand]
                                 else if b_eq a "(" && interp then rec (CAny TStr false) CEmpty
                                 else if b_eq a "=" then rec ec CEmpty else vnil
                        | _ => if last_is trimmed "(" && interp then rec (CAny TStr false) CEmpty
                               else if last_is trimmed "=" then rec ec CEmpty
                               else vnil
                        end
                    end
                end
            end
        | _ => vnil
        end
    end.

  (* ---- object ---- *)
  Definition declared := list (string * (Z * Z)).
  Definition decl_set (d : declared) (n : string) (r : Z * Z) : declared := (n, r) :: d.   (* later entries win: looked up from the front *)
  Fixpoint decl_get (d : declared) (n : string) : option (Z * Z) :=
    match d with [] => None | (k, r) :: rest => if String.eqb k n then Some r else decl_get rest n end.

  (* hcl.Range.Overlaps on byte offsets (same file) *)
  Definition overlaps (a b : Z * Z) : bool :=
    let '(s1, e1) := a in let '(s2, e2) := b in
    if Z.eqb s1 e1 || Z.eqb s2 e2 then false
    else ((Z.leb s1 s2 && Z.ltb s2 e1) || (Z.leb s1 e2 && Z.ltb e2 e1))
         || ((Z.leb s2 s1 && Z.ltb s1 e2) || (Z.leb s2 e1 && Z.ltb e1 e2)).

  (* objectAttributesToCandidates: [ats] sorted by name *)
  Definition attrs_to_cands (prefix : string) (ats : list (string * attr_schema)) (d : declared) (er : Z * Z) : list vitem :=
    flat_map (fun a : string * attr_schema =>
      let '(name, s) := a in
      if negb (bytes_prefix prefix name) then []
      else match decl_get d name with
           | Some dr => if negb (overlaps dr er) then [] else
               [match ecd prefill 40 (as_cons s) 1 0 with
                | Some c => VC kAttribute (Some name) (Some name) (Some (name ++ " = " ++ render (cd_snip c))) (Some (cd_trigger c)) (fst er) (snd er)
                | None => VC kAttribute (Some name) (Some name) None None (fst er) (snd er)
                end]
           | None =>
               [match ecd prefill 40 (as_cons s) 1 0 with
                | Some c => VC kAttribute (Some name) (Some name) (Some (name ++ " = " ++ render (cd_snip c))) (Some (cd_trigger c)) (fst er) (snd er)
                | None => VC kAttribute (Some name) (Some name) None None (fst er) (snd er)
                end]
           end) ats.

  (* start byte of the range rawObjectKey reports: inside the quotes for a quoted key *)
  Definition raw_key_start (krng : range) : Z :=
    match byte_at (rs krng) with Some a => if is_quote a then (rs krng + 1)%Z else rs krng | None => rs krng end.

  Record obj_state := { os_decl : declared; os_recovery : Z; os_last : option (Z * Z * Z);   (* start, end, end line *)
                        os_next : option Z (* start line *) }.

  Inductive obj_scan := OReturn (r : vres) | OFall (s : obj_state).

  Fixpoint object_items (ats : list (string * attr_schema)) (interp : bool) (items : list sitem) (st : obj_state) : obj_scan :=
    match items with
    | [] => OFall st
    | SItem krng k v :: r =>
        if Z.leb (re krng) P && Z.ltb P (rs (se_rng v)) then OReturn vnil
        else
          let whole := (rs krng, re (se_rng v)) in
          let raw := match k with SKRaw n => Some n | _ => None end in
          let decl := match raw with Some n => decl_set (os_decl st) n whole | None => os_decl st end in
          match os_next st with
          | Some _ => object_items ats interp r {| os_decl := decl; os_recovery := os_recovery st; os_last := os_last st; os_next := os_next st |}
          | None =>
              if Z.ltb P (rs krng) then
                object_items ats interp r {| os_decl := decl; os_recovery := os_recovery st; os_last := os_last st;
                                             os_next := Some (p_line (r_start krng)) |}
              else
                let st' := {| os_decl := decl; os_recovery := re (se_rng v);
                              os_last := Some (rs krng, re (se_rng v), p_line (r_end (se_rng v))); os_next := None |} in
                if contains_pos krng p then
                  OReturn (match key_parens k, interp with
                           | Some pe, true => rec (CAny TStr false) (norm pe)
                           | _, _ =>
                               match raw with
                               | Some name =>
                                   let ks := raw_key_start krng in
                                   let prefix :=
                                     if Z.leb ks P then
                                       let plen := (P - ks)%Z in
                                       let plen := if Z.ltb (Z.of_nat (String.length name)) plen then Z.of_nat (String.length name) else plen in
                                       String.substring 0 (Z.to_nat plen) name
                                     else "" in
                                   vret (attrs_to_cands prefix ats decl whole)
                               | None => vnil
                               end
                           end)
                else if at_or_end (se_rng v) p then
                  OReturn (match raw with
                           | Some name => match alookup name ats with Some s => rec (as_cons s) (norm v) | None => vnil end
                           | None => match alookup "" ats with Some s => rec (as_cons s) (norm v) | None => vnil end
                           end)
                else object_items ats interp r st'
          end
    end.

  Definition is_nl_or_brace (a : ascii) : bool := Nat.eqb (byte_n a) 10 || b_eq a "}".

  Definition object_cands (self : constraint) (ats : list (string * attr_schema)) (interp : bool) (e : cexpr) : vres :=
    match e with
    | CEmpty => vret [ecd_item kObject None self]
    | CExpr x =>
        match se_node x with
        | NObject items =>
            if negb (inside (between_brackets x true)) then vnil
            else match ats with
            | [] => vnil
            | _ =>
                let open_start := match lookup_range opens (se_rng x) with Some o => rs o | None => 0%Z end in
                match object_items ats interp items {| os_decl := []; os_recovery := open_start; os_last := None; os_next := None |} with
                | OReturn r => r
                | OFall st =>
                    let recovered := recover_left file P (fun off b => is_item_term b && Z.ltb (os_recovery st) off) in
                    let trimmed := trim_right_set is_blank_tab recovered in
                    match trimmed with
                    | [] => vnil
                    | _ =>
                        let single_term := match trimmed with [a] => if is_item_term a then Some a else None | _ => None end in
                        match single_term with
                        | Some a =>
                            if match os_next st with Some l => Z.eqb l (p_line p) | None => false end then vnil
                            else if match os_last st with Some (_, _, l) => Z.eqb l (p_line p) && negb (b_eq a ",") | None => false end then vnil
                            else vret (attrs_to_cands "" ats (os_decl st) (P, P))
                        | None =>
                            let t2 := trim_left_space is_item_term trimmed in
                            if last_is t2 "(" && interp then rec (CAny TStr false) CEmpty
                            else if last_is t2 "=" then
                              let name := string_of_bytes (trim_space is_quote (removelast t2)) in
                              match alookup name ats with Some s => rec (as_cons s) CEmpty | None => vnil end
                            else
                              let prefix := string_of_bytes (trim_space is_quote t2) in
                              let remaining := slice P (re (se_rng x)) in
                              let rough := match index_where is_nl_or_brace remaining 0 with Some i => i | None => length remaining end in
                              let right := trim_right_space no_extra (firstn rough remaining) in
                              let er := ((P - Z.of_nat (length t2))%Z, (P + Z.of_nat (length right))%Z) in
                              vret (attrs_to_cands prefix ats (os_decl st) er)
                        end
                    end
                end
            end
        | _ => vnil
        end
    end.

  (* ---- references (Reference.CompletionAtPos) ---- *)
  Definition ref_cands (scope : string) (t : ty) (prefix : string) (org : range) (filter_prefix : bool) : list vitem :=
    match refs scope t prefix org with
    | Some labels =>
        map (fun l => VC kReference (Some l) (Some l) (Some l) (Some false) (rs org) (re org))
            (if filter_prefix then filter (bytes_prefix prefix) labels else labels)
    | None => [VOpq kReference (rs org) (re org)]
    end.

  Definition ref_items (scope : string) (t : ty) (e : cexpr) : vres :=
    match e with
    | CEmpty => vret (ref_cands scope t "" (empty_range_at fname p) false)
    | CExpr x =>
        match se_node x with
        | NTrav _ _ _ =>
            let r := edit_range (se_rng x) p in
            vret (ref_cands scope t (string_of_bytes (slice (rs (se_rng x)) P)) r true)
        | NOther => vskip
        | _ => vnil
        end
    end.

  Definition fn_cands (t : ty) (prefix : string) (sb eb : Z) : list vitem :=
    match fns prefix t with
    | Some l => map (fun c => VC kFunction (Some (fc_label c)) (Some (fc_newtext c)) (Some (fc_snippet c)) (Some false) sb eb) l
    | None => [VOpq kFunction sb eb]
    end.

  Definition fn_items (t : ty) (e : cexpr) : vres :=
    match e with
    | CEmpty => vret (fn_cands t "" P P)
    | CExpr x =>
        match se_node x with
        | NTrav root [TSRoot rr] _ =>
            let plen := (P - rs rr)%Z in
            if Z.ltb plen 0 || Z.ltb (Z.of_nat (String.length root)) plen then vnil
            else vret (fn_cands t (String.substring 0 (Z.to_nat plen) root) (rs (se_rng x)) (re (se_rng x)))
        | NTrav _ _ _ => vnil
        | NOther => vskip
        | _ => vnil
        end
    end.

  (* ---- function calls (functionExpr.CompletionAtPos on a FunctionCallExpr) ---- *)
  Inductive arg_scan := AFound (a : sexpr) (i : nat) | ADone (last : option sexpr) (last_end : Z) (last_idx : nat).

  Fixpoint arg_at (i : nat) (args : list sexpr) (last : option sexpr) (last_end : Z) (last_idx : nat) : arg_scan :=
    match args with
    | [] => ADone last last_end last_idx
    | a :: r => if Z.ltb P (rs (se_rng a)) then ADone last last_end last_idx
                else if at_or_end (se_rng a) p then AFound a i
                else arg_at (S i) r (Some a) (re (se_rng a)) i
    end.

  Definition param_type (params : list ty) (varp : option ty) (i : nat) : option ty :=
    match nth_error params i with Some t => Some t | None => varp end.

  Definition call_cands (t : ty) (x : sexpr) : vres :=
    match se_node x with
    | NCall name nrng args =>
        if contains_pos nrng p then vret (fn_cands t (String.substring 0 (Z.to_nat (P - rs nrng)) name) (rs (se_rng x)) (re (se_rng x)))
        else
          match alookup name funcs with
          | None => vnil
          | Some (params, varp) =>
              match lookup_range parens (se_rng x) with
              | None => vnil
              | Some pr =>
                  if negb (contains_pos pr p) then vnil
                  else
                    match params, varp with
                    | [], None => vnil
                    | _, _ =>
                        match arg_at 0 args None (rs pr) 0 with
                        | AFound a i =>
                            match param_type params varp i with Some t => rec (CAny t false) (norm a) | None => vnil end
                        | ADone last last_end last_idx =>
                            let recovered := recover_left file P (fun off b => (b_eq b "," || b_eq b "(") && Z.ltb last_end off) in
                            let trimmed := trim_right_set is_blank_tab_nl recovered in
                            let comma := String.eqb (string_of_bytes trimmed) "," in
                            let active := if comma then S last_idx else last_idx in
                            let elem := if comma then CEmpty
                                        else match recovered, last with [], Some a => norm a | _, _ => CEmpty end in
                            match param_type params varp active with Some t => rec (CAny t false) elem | None => vnil end
                        end
                    end
              end
          end
    | _ => vnil
    end.

  (* ---- any expression ---- *)
  Definition index_cands (e : cexpr) : vres :=
    match e with
    | CEmpty => vnil
    | CExpr x =>
        match se_node x with
        | NTrav _ steps _ =>
            match rev steps with
            | TSIdxUnknown _ :: _ :: _ => rec (CAny TStr false) CEmpty   (* !idx.Key.IsKnown(): [tags[]]; a null or boolean key is known *)
            | _ => vnil
            end
        | NIndex k => rec (CAny TStr false) (norm k)
        | _ => vnil
        end
    end.

  Definition leaf_cands (t : ty) (skip : bool) (e : cexpr) : vres :=
    vapp (ref_items "" t e) (vapp (fn_items t e) (vapp (literal_type_cands t skip e) (index_cands e))).

  Fixpoint parts_at (parts : list sexpr) : option sexpr :=
    match parts with
    | [] => None
    | x :: r =>
        if Z.ltb P (rs (se_rng x)) then None
        else if at_or_end (se_rng x) p then Some x
        else if dot_behind (se_rng x) then Some x
        else parts_at r
    end.

  Definition non_complex_cands (t : ty) (skip : bool) (e : cexpr) : vres :=
    match e with
    | CEmpty => leaf_cands t skip e
    | CExpr x =>
        let sub (t' : ty) (y : sexpr) := vapp (rec (CAny t' false) (norm y)) (leaf_cands t skip e) in
        match se_node x with
        | NBinary rt p1 p2 l r =>
            if negb (prim_conv rt t) then vnil
            else if contains_pos (se_rng l) p then sub p1 l
            else if at_or_end (se_rng r) p then sub p2 r
            else vnil
        | NUnary rt p1 y =>
            if negb (prim_conv rt t) then vnil
            else if at_or_end (se_rng y) p then sub p1 y
            else if dot_behind (se_rng y) then sub p1 y
            else vnil
        | NParens y =>
            if at_or_end (se_rng y) p then vapp (rec (CAny t skip) (norm y)) (leaf_cands t skip e)
            else leaf_cands t skip e
        | NTemplate true _ => vnil
        | NTemplate false parts =>
            match parts_at parts with Some y => sub TStr y | None => vnil end
        | NWrap y =>
            if at_or_end (se_rng y) p then sub TStr y
            else if dot_behind (se_rng y) then sub TStr y
            else vnil
        | NCond c a b =>
            if at_or_end (se_rng c) p then sub TBool c
            else if at_or_end (se_rng a) p then sub TDyn a
            else if at_or_end (se_rng b) p then sub TDyn b
            else vnil
        | NFor coll key val cond =>
            if negb (is_iterable t) then leaf_cands t skip e
            else if at_or_end (se_rng coll) p then vapp (rec (CAny t skip) (norm coll)) (leaf_cands t skip e)
            else
              match (match key with Some k => if at_or_end (se_rng k) p then Some k else None | None => None end) with
              | Some k => match iter_key_type t with Some kt => sub kt k | None => leaf_cands t skip e end
              | None =>
                  if at_or_end (se_rng val) p then
                    match iter_val_type t with Some vt' => sub vt' val | None => leaf_cands t skip e end
                  else
                    match (match cond with Some c => if at_or_end (se_rng c) p then Some c else None | None => None end) with
                    | Some c => sub TBool c
                    | None => vnil
                    end
              end
        | NCall _ _ _ => call_cands t x
        | NOther => vskip
        | _ => leaf_cands t skip e
        end
    end.

  Definition any_cands (t : ty) (skip : bool) (e : cexpr) : vres :=
    if skip then non_complex_cands t skip e
    else
      match e with
      | CEmpty => non_complex_cands t skip e
      | CExpr x =>
          match t, se_node x with
          | TList el, NTuple _ => rec (CList (Some (CAny el false)) 0 0) e
          | TSet el, NTuple _ => rec (CSet (Some (CAny el false)) 0 0) e
          | TTuple ts, NTuple _ => rec (CTuple (map (fun t' => CLitType t' false) ts)) e
          | TMap el, NObject _ => rec (CMap (Some (CAny el false)) "" true 0 0) e
          | TObject _, NObject _ =>
              match expand_lit_type t with
              | Some (CObject ats nilp nm _) => rec (CObject ats nilp nm true) e
              | _ => vnil
              end
          | _, _ => non_complex_cands t skip e
          end
      end.

  Definition step_cands (c : constraint) (e : cexpr) : vres :=
    match c with
    | CAny t skip => any_cands t skip e
    | CLitType t skip => literal_type_cands t skip e
    | CLitValue v t _ => literal_value_cands v t e
    | CKeyword kw _ => keyword_cands kw e
    | CRef _ _ _ (Some _) => vnil          (* a reference that declares what it names: no candidates *)
    | CRef sc t _ None => ref_items sc t e
    | CTypeDecl => rec_td e
    | CList elem _ _ => list_cands kList c elem e
    | CSet elem _ _ => list_cands kSet c elem e
    | CTuple cs => tuple_cands c cs e
    | CMap elem _ interp _ _ => map_cands c elem interp e
    | CObject ats _ _ interp => object_cands c ats interp e
    | COneOf cs => one_of_cands cs e
    end.
End Descent.

Fixpoint value_cands (prefill : bool) (file : bytes) (opens : range_table) (empties : list range) (vals : list (range * sexp))
         (funcs : fsigs) (parens : range_table) (cparens : paren_table) (fname : string)
         (refs : string -> ty -> string -> range -> option (list string)) (fns : string -> ty -> option (list fcand)) (p : pos) (fuel : nat) (c : constraint) (e : cexpr) : vres :=
  match fuel with
  | O => None
  | S n => step_cands prefill file opens empties vals funcs parens fname refs fns p (value_cands prefill file opens empties vals funcs parens cparens fname refs fns p n)
                      (type_cands file opens empties cparens p n) c e
  end.

(* ---------------- the whole file: body level (Model/Completion.v) + values ---------------- *)
From HV Require Import Model.Hover.

Fixpoint bytes_of_string (s : string) : bytes := match s with EmptyString => [] | String a r => a :: bytes_of_string r end.

(* observed candidate: (kind "label" "newtext" "snippet" trigger startbyte endbyte) *)
Record ocandv := { ov_kind : Z; ov_label : string; ov_new : string; ov_snip : string; ov_trig : bool; ov_sb : Z; ov_eb : Z }.

Definition ocandv_of_sexp (x : sexp) : option ocandv :=
  match x with
  | SList [k; SStr l; SStr n; SStr s; t; sb; eb] =>
      match as_Z k, as_bool t, as_Z sb, as_Z eb with
      | Some k, Some t, Some sb, Some eb =>
          Some {| ov_kind := k; ov_label := l; ov_new := n; ov_snip := s; ov_trig := t; ov_sb := sb; ov_eb := eb |}
      | _, _, _, _ => None
      end
  | _ => None
  end.

Definition opt_eq {A} (eqb : A -> A -> bool) (o : option A) (a : A) : bool := match o with Some x => eqb x a | None => true end.

Definition item_matches (i : vitem) (o : ocandv) : bool :=
  match i with
  | VC k l n s t sb eb =>
      Z.eqb k (ov_kind o) && opt_eq String.eqb l (ov_label o) && opt_eq String.eqb n (ov_new o) && opt_eq String.eqb s (ov_snip o)
      && opt_eq Bool.eqb t (ov_trig o) && Z.eqb sb (ov_sb o) && Z.eqb eb (ov_eb o)
  | VOpq k sb eb => Z.eqb k (ov_kind o) && Z.eqb sb (ov_sb o) && Z.eqb eb (ov_eb o)
  end.

(* consecutive [VOpq] items of one kind stand for runs of observed candidates of that kind, one run per item, in
   order; every candidate of a run carries the item's edit range *)
Fixpoint drop_to_match (ranges : list (Z * Z)) (sb eb : Z) : option (list (Z * Z)) :=
  match ranges with
  | [] => None
  | (s, e) :: r => if Z.eqb s sb && Z.eqb e eb then Some ranges else drop_to_match r sb eb
  end.

Fixpoint eat_group (k : Z) (ranges : list (Z * Z)) (obs : list ocandv) : option (list ocandv) :=
  match obs with
  | o :: r => if Z.eqb (ov_kind o) k
              then match drop_to_match ranges (ov_sb o) (ov_eb o) with Some ranges' => eat_group k ranges' r | None => None end
              else Some obs
  | [] => Some []
  end.

(* the leading VOpq items of kind k, and what follows them *)
Fixpoint take_opq (k : Z) (pat : list vitem) : list (Z * Z) * list vitem :=
  match pat with
  | VOpq k' sb eb :: r => if Z.eqb k k' then let '(rs', rest) := take_opq k r in ((sb, eb) :: rs', rest) else ([], pat)
  | _ => ([], pat)
  end.

Fixpoint items_match_fuel (fuel : nat) (pat : list vitem) (obs : list ocandv) : bool :=
  match fuel with
  | O => false
  | S n =>
      match pat with
      | [] => match obs with [] => true | _ => false end
      | VOpq k _ _ :: _ =>
          let '(ranges, rest) := take_opq k pat in
          match eat_group k ranges obs with Some obs' => items_match_fuel n rest obs' | None => false end
      | i :: r => match obs with o :: os => item_matches i o && items_match_fuel n r os | [] => false end
      end
  end.

Definition items_match (pat : list vitem) (obs : list ocandv) : bool := items_match_fuel (S (length pat)) pat obs.

Definition sexp_of_vitem (i : vitem) : sexp :=
  let so (o : option string) := match o with Some s => SStr s | None => SAtom "_" end in
  match i with
  | VC k l n s t sb eb => SList [sZ k; so l; so n; so s; match t with Some b => sB b | None => SAtom "_" end; sZ sb; sZ eb]
  | VOpq k sb eb => SList [SAtom "any-number-of"; sZ k; sZ sb; sZ eb]
  end.

(* (valuecands PREFILL MAX "file bytes" TOKENS DECODED BODY SCHEMA EXPRS OPENS EMPTIES VALS ((POS OBSERVED)...)):
   OBSERVED = (cands COMPLETE (candidate...)) | anything else (an error: only compared at body level).
   Answer: (allok) or (mismatch (POS expected)...).  Positions outside attribute values, in values of hooked
   attributes, with a list cut at the limit, or where the model says "not modelled" are not compared. *)
(* the walk over the collected declarations as the [refs] parameter of the model *)
Fixpoint conv_has (tbl : list (ty * ty * bool)) (a b : ty) : bool :=
  match tbl with [] => false | (x, y, _) :: r => (ty_eqb x a && ty_eqb y b) || conv_has r a b end.

Fixpoint target_types (fuel : nat) (ts : list target) : list ty :=
  match fuel with
  | O => []
  | S f => flat_map (fun t => t_type t :: target_types f (t_nested t)) ts
  end.

Definition refs_of (cv : list (ty * ty * bool)) (ts : list target) (self : bool) (outer : range) (p : pos)
           (scope : string) (t : ty) (prefix : string) (org : range) : option (list string) :=
  let fuel := S (forest_depth ts) in
  let need := filter (fun a => negb (is_nil a) && negb (is_dyn a)) (target_types fuel ts) in
  if is_nil t || forallb (fun a => conv_has cv a t) need then
    Some (map (fun x => addr_string (target_address self x (r_start org)))
              (match_walk (conv_lookup cv) self scope t prefix outer org fuel ts))
  else None.

(* outerBodyRng of Reference.CompletionAtPos: the body of the top-level block the cursor is in, else the root body *)
Definition outer_body_range (b : body) (p : pos) : range :=
  match find (fun k => contains_pos (k_rng k) p) (b_blocks b) with
  | Some k => b_rng (k_body k)
  | None => b_rng b
  end.

(* what happened at one position *)
Inductive vc_outcome := VCNotValue | VCCompared | VCUnmodelled | VCNotCompared | VCBad (x : sexp).

Definition run_value_cands (kind : string) (args : list sexp) : option sexp :=
  if String.eqb kind "valuecands" || String.eqb kind "valuecandsstat" then
    match args with
    | [pf; mx; SStr file; toks; SList dec; b; bs; SList es; op; em; SList vs; SList fs; prn; SList cps; cvx; tsx; frx; SList pairs] =>
        let tokens := match toks with SList ts => map_opt token_of_sexp ts | _ => None end in
        let lex_failed := match toks with SAtom _ => true | _ => false end in
        match as_bool pf, as_Z mx, map_opt decoded_of_sexp dec, Ast.body_of_sexp b, Schema.body_of_sexp bs,
              map_opt sexpr_entry_of_sexp es, range_table_of_sexp op, ranges_of_sexp em,
              map_opt (fun x => match x with SList [r; v] => option_map (fun r' => (r', v)) (range_of_sexp r) | _ => None end) vs,
              map_opt fsig_of_sexp fs, range_table_of_sexp prn,
              map_opt (fun x => match x with SList [a; o; c] => match range_of_sexp a, range_of_sexp o, range_of_sexp c with Some a, Some o, Some c => Some (a, (o, c)) | _, _, _ => None end | _ => None end) cps with
        | Some pf, Some mx, Some dec, Some b, Some bs, Some es, Some op, Some em, Some vs, Some fs, Some prn, Some cps =>
            match tokens, lex_failed with
            | None, false => None
            | _, _ =>
                let tk := if lex_failed then None else tokens in
                let fb := bytes_of_string file in
                let outcomes := map (fun pr =>
                  match pr with
                  | SList [p; obs] =>
                      match pos_of_sexp p with
                      | Some pp =>
                          match completion_body mx file tk dec pp b bs with
                          | ODelegated a sch =>
                              match hover_attr_schema sch (a_name a), lookup_sexpr es (a_rng a), obs with
                              | Some s, Some e, SList [SAtom "cands"; complete; SList ol] =>
                                  if negb (Z.eqb (as_hooks s) 0) then VCNotCompared
                                  else if Z.leb mx (Z.of_nat (length ol)) then VCNotCompared
                                  else
                                    match map_opt ocandv_of_sexp ol with
                                    | Some ol' =>
                                        let ce := if existsb (range_eqb (se_rng e)) em then (match se_node e with NLit _ => CEmpty | _ => CExpr e end) else CExpr e in
                                        let refs : string -> ty -> string -> range -> option (list string) :=
                                          match cvx, tsx with
                                          | SList cvl, SList tsl =>
                                              match map_opt conv_entry_of_sexp cvl, map_opt target_of_sexp tsl with
                                              | Some cv, Some ts => refs_of cv ts (ext_has ext_self_refs (bs_ext sch)) (outer_body_range b pp) pp
                                              | _, _ => fun _ _ _ _ => None
                                              end
                                          | _, _ => fun _ _ _ _ => None
                                          end in
                                        let fns : string -> ty -> option (list fcand) :=
                                          match cvx, frx with
                                          | SList cvl, SList frl =>
                                              match map_opt conv_entry_of_sexp cvl, map_opt fdecl_of_sexp frl with
                                              | Some cv, Some fds =>
                                                  fun pfx t => if forallb (fun f => conv_has cv (fd_ret f) t) fds
                                                               then Some (matching_functions (conv_lookup cv) fds pfx t) else None
                                              | _, _ => fun _ _ => None
                                              end
                                          | _, _ => fun _ _ => None
                                          end in
                                        match value_cands pf fb op em vs fs prn cps (r_file (b_rng b)) refs fns pp 40 (as_cons s) ce with
                                        | Some (Some items) =>
                                            if items_match items ol' && sexp_eqb complete (sB true) then VCCompared
                                            else VCBad (SList [p; SList (map sexp_of_vitem items)])
                                        | Some None => VCUnmodelled
                                        | None => VCBad (SList [p; SAtom "out-of-fuel"])
                                        end
                                    | None => VCBad (SList [p; SAtom "bad-observed"])
                                    end
                              | Some _, None, _ => VCBad (SList [p; SAtom "no-expression"])
                              | _, _, _ => VCNotCompared
                              end
                          | _ => VCNotValue
                          end
                      | None => VCBad (SList [p; SAtom "badpos"])
                      end
                  | _ => VCBad (SAtom "badpair")
                  end) pairs in
                let bad := flat_map (fun o => match o with VCBad x => [x] | _ => [] end) outcomes in
                let count (f : vc_outcome -> bool) := sZ (Z.of_nat (length (filter f outcomes))) in
                if String.eqb kind "valuecandsstat" then
                  Some (SList [SAtom "stat";
                               count (fun o => match o with VCCompared => true | _ => false end);
                               count (fun o => match o with VCUnmodelled => true | _ => false end);
                               count (fun o => match o with VCNotCompared => true | _ => false end);
                               count (fun o => match o with VCNotValue => true | _ => false end);
                               count (fun o => match o with VCBad _ => true | _ => false end)])
                else
                match bad with [] => Some (SList [SAtom "allok"]) | _ => Some (SList (SAtom "mismatch" :: bad)) end
            end
        | _, _, _, _, _, _, _, _, _, _, _, _ => None
        end
    | _ => None
    end
  else None.
