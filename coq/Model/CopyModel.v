(* C17: a location-labelled model of Copy().
   A schema value is a tree of immutable data and mutable cells (the target of a pointer, the
   backing array of a slice, a map); a cell has an identity.  A Copy() method treats each field in
   one of four modes; Gen/Fields.v records, for every exported field of every schema struct in
   /repo, its kind (from the struct definition) and the mode Copy() applies (observed). *)
From Coq Require Import String List ZArith NArith Bool Lia.
Import ListNotations.

Inductive kind :=
| K_immutable            (* scalars, strings, constraints, addresses, cty types/values: may be shared *)
| K_imm_slice | K_imm_map            (* containers of immutable data *)
| K_node_ptr | K_node_slice | K_node_map.   (* pointers to / containers of schema nodes *)

Inductive mode := M_omitted | M_shared | M_shallow | M_deep.

Record field_entry := { fe_struct : string; fe_field : string; fe_kind : kind; fe_mode : mode }.

Definition adequate (k : kind) (m : mode) : bool :=
  match k, m with
  | _, M_omitted => false
  | K_immutable, _ => true
  | (K_imm_slice | K_imm_map), (M_shallow | M_deep) => true
  | (K_node_ptr | K_node_slice | K_node_map), M_deep => true
  | _, _ => false
  end.

Definition adequate_entry (e : field_entry) : bool := adequate (fe_kind e) (fe_mode e).

(* ---- values ---- *)
Inductive val :=
| VImm (z : Z)
| VNil
| VCell (id : N) (kids : list val).

Section ValInd.
  Variable P : val -> Prop.
  Hypothesis Himm : forall z, P (VImm z).
  Hypothesis Hnil : P VNil.
  Hypothesis Hcell : forall id kids, Forall P kids -> P (VCell id kids).
  Fixpoint val_ind' (v : val) : P v :=
    match v with
    | VImm z => Himm z
    | VNil => Hnil
    | VCell id kids =>
        Hcell id kids ((fix go (l : list val) : Forall P l :=
                          match l with [] => Forall_nil P | x :: r => Forall_cons x (val_ind' x) (go r) end) kids)
    end.
End ValInd.

(* the value with identities forgotten: what "structurally equal" compares *)
Inductive shape := SImm (z : Z) | SNil | SCell (kids : list shape).

Fixpoint erase (v : val) : shape :=
  match v with
  | VImm z => SImm z
  | VNil => SNil
  | VCell _ kids => SCell (map erase kids)
  end.

Fixpoint cells (v : val) : list N :=
  match v with
  | VImm _ | VNil => []
  | VCell id kids => id :: flat_map cells kids
  end.

(* all identities below a bound *)
Fixpoint below (b : N) (v : val) : Prop :=
  match v with
  | VImm _ | VNil => True
  | VCell id kids => (id < b)%N /\ (fix all (l : list val) : Prop := match l with [] => True | x :: r => below b x /\ all r end) kids
  end.

(* deep copy: every cell gets a fresh identity from the supply [next] *)
Fixpoint deep (next : N) (v : val) : val * N :=
  match v with
  | VImm z => (VImm z, next)
  | VNil => (VNil, next)
  | VCell _ kids =>
      let '(kids', n') :=
        (fix go (n : N) (l : list val) : list val * N :=
           match l with
           | [] => ([], n)
           | x :: r => let '(x', n1) := deep n x in let '(r', n2) := go n1 r in (x' :: r', n2)
           end) (next + 1)%N kids in
      (VCell next kids', n')
  end.

Fixpoint deep_list (n : N) (l : list val) : list val * N :=
  match l with
  | [] => ([], n)
  | x :: r => let '(x', n1) := deep n x in let '(r', n2) := deep_list n1 r in (x' :: r', n2)
  end.

Lemma deep_cell next id kids :
  deep next (VCell id kids) = let '(k, n) := deep_list (next + 1)%N kids in (VCell next k, n).
Proof.
  cbn [deep].
  assert (H : forall n l,
    (fix go (n : N) (l : list val) : list val * N :=
       match l with
       | [] => ([], n)
       | x :: r => let '(x', n1) := deep n x in let '(r', n2) := go n1 r in (x' :: r', n2)
       end) n l = deep_list n l).
  { intros n l; revert n; induction l as [|x r IH]; intros n; cbn; [reflexivity|].
    destruct (deep n x) as [x' n1]. rewrite IH. reflexivity. }
  rewrite H. reflexivity.
Qed.

Definition copy_field (m : mode) (next : N) (v : val) : val :=
  match m with
  | M_omitted => VNil
  | M_shared => v
  | M_shallow => match v with VCell _ kids => VCell next kids | _ => v end
  | M_deep => fst (deep next v)
  end.

(* writing through a cell: apply [f] to the children of the cell named [id], wherever it occurs *)
Fixpoint write (id : N) (f : list val -> list val) (v : val) : val :=
  match v with
  | VImm _ | VNil => v
  | VCell i kids =>
      let kids' := map (write id f) kids in
      if N.eqb i id then VCell i (f kids') else VCell i kids'
  end.
