(* decoder/hover.go: HoverAtPos at body level (attribute names, block types, labels, positional
   errors).  Hover inside attribute values is delegated (not modelled here); the text of an
   attribute-name hover is modelled in Model/AttrDetail.v (here: range only). *)
From Coq Require Import String Ascii List ZArith Bool.
From HV Require Import Base.Sexp Base.Str Base.Pos Model.Addr Model.DepKeys Model.Schema Model.Ast Model.Merge Model.Completion.
Import ListNotations.
Open Scope string_scope.

Inductive hover_outcome :=
| HHover (content : option string) (r : range)
| HErr (msg : string)
| HNone                          (* nil, nil *)
| HDelegated.

Definition bt_name (t : block_type) : string :=
  match t with BTNil => "" | BTList => "list" | BTMap => "map" | BTObject => "object" | BTSet => "set" end.

(* detailForBlock *)
Definition detail_for_block (s : block_schema) : string :=
  "Block" ++ (match bk_type s with BTNil => "" | t => ", " ++ bt_name t end)
          ++ (if Z.ltb 0 (bk_min s) then ", min: " ++ string_of_Z (bk_min s) else "")
          ++ (if Z.ltb 0 (bk_max s) then ", max: " ++ string_of_Z (bk_max s) else "").

Definition hover_url_of (b : option body_schema) : string := match b with Some x => bs_hover_url x | None => "" end.

(* hoverContentForBlock; None when a hover URL would have to be rendered *)
Definition hover_block (t : string) (s : block_schema) : option string :=
  if negb (String.eqb (hover_url_of (bk_body s)) "") then None else
  Some ("**" ++ t ++ "** _" ++ detail_for_block s ++ "_" ++
        (if String.eqb (bk_desc s) "" then "" else nl ++ nl ++ bk_desc s)).

(* hoverContentForLabel *)
Definition hover_label (i : nat) (k : block) (s : block_schema) : option string :=
  let value := nth i (k_labels k) "" in
  match nth_error (bk_labels s) i with
  | None => None
  | Some ls =>
      let generic :=
        let c := go_quote value ++ (if String.eqb (ls_name ls) "" then "" else " (" ++ ls_name ls ++ ")") in
        Some (c ++ (if String.eqb (ls_desc ls) "" then "" else nl ++ nl ++ ls_desc ls)) in
      if ls_depkey ls then
        let '(bs, _, res) := dependent_body_schema s k in
        match res, bs with
        | (LookupSuccessful | LookupPartiallySuccessful), Some b =>
            if negb (String.eqb (bs_hover_url b) "") then None else
            Some ("`" ++ value ++ "`" ++
                  (if negb (String.eqb (bs_detail b) "") then " " ++ bs_detail b
                   else if negb (String.eqb (ls_name ls) "") then " " ++ ls_name ls else "") ++
                  (if negb (String.eqb (bs_desc b) "") then nl ++ nl ++ bs_desc b
                   else if negb (String.eqb (ls_desc ls) "") then nl ++ nl ++ ls_desc ls else ""))
        | _, _ => generic
        end
      else generic
  end.

Section HoverAtPos.
  Variable p : pos.

  Definition hover_attr_schema (bs : body_schema) (name : string) : option attr_schema :=
    if ext_has ext_count (bs_ext bs) && String.eqb name "count" then Some count_attr_schema
    else if ext_has ext_for_each (bs_ext bs) && String.eqb name "for_each" then Some for_each_attr_schema
    else match alookup name (bs_attrs bs) with Some a => Some a | None => bs_any bs end.

  (* the attribute loop: an attribute whose range contains the position decides unless neither its
     name nor its expression contains it (then the loop goes on) *)
  Fixpoint hover_attrs (attrs : list attr) (bs : body_schema) : option hover_outcome :=
    match attrs with
    | [] => None
    | a :: rest =>
        if contains_pos (a_rng a) p then
          match hover_attr_schema bs (a_name a) with
          | None => Some (HErr ("unknown attribute " ++ go_quote (a_name a)))
          | Some _ =>
              if contains_pos (a_name_rng a) p then Some (HHover None (a_rng a))
              else if contains_pos (expr_range (a_expr a)) p then Some HDelegated
              else hover_attrs rest bs
          end
        else hover_attrs rest bs
    end.

  Fixpoint hover_labels (k : block) (sc : block_schema) (i : nat) (rngs : list range) : option hover_outcome :=
    match rngs with
    | [] => None
    | lr :: rest =>
        if contains_pos lr p then
          if Nat.leb (List.length (bk_labels sc)) i
          then Some (HErr ("unexpected label (" ++ string_of_Z (Z.of_nat i) ++ ") " ++ go_quote (nth i (k_labels k) "")))
          else Some (HHover (hover_label i k sc) lr)
        else hover_labels k sc (S i) rest
    end.

  Fixpoint hover_body (b : body) (bs : body_schema) : hover_outcome :=
    let fix blocks (l : list block) : option hover_outcome :=
      match l with
      | [] => None
      | k :: rest =>
          if contains_pos (k_rng k) p then
            match alookup (k_type k) (bs_blocks bs) with
            | None => Some (HErr ("unknown block type " ++ go_quote (k_type k)))
            | Some sc =>
                if contains_pos (k_type_rng k) p then Some (HHover (hover_block (k_type k) sc) (k_type_rng k))
                else
                  match hover_labels k sc 0 (k_label_rngs k) with
                  | Some o => Some o
                  | None =>
                      if is_pos_outside_body k p then Some (HErr ("position outside of " ++ go_quote (k_type k) ++ " body"))
                      else
                        match k with Block _ _ _ _ _ _ _ _ kb =>
                          if contains_pos (b_rng kb) p then
                            let '(m, _) := merge_block_body_schemas sc k in Some (hover_body kb m)
                          else blocks rest
                        end
                  end
            end
          else blocks rest
      end in
    match hover_attrs (b_attrs b) bs with
    | Some o => o
    | None =>
        match blocks (b_blocks b) with
        | Some o => o
        | None => HErr "position outside of any attribute name, value or block"
        end
    end.
End HoverAtPos.

Definition hover_matches (o : hover_outcome) (obs : sexp) : bool :=
  match o with
  | HDelegated => true
  | HNone => sexp_eqb obs (SList [SAtom "nohover"])
  | HErr m => sexp_eqb obs (SList [SAtom "err"; SStr m])
  | HHover None r =>
      match obs with SList [SAtom h; _; rr] => String.eqb h "hover" && sexp_eqb rr (sexp_of_range r) | _ => false end
  | HHover (Some c) r => sexp_eqb obs (SList [SAtom "hover"; SStr c; sexp_of_range r])
  end.

Definition sexp_of_hover (o : hover_outcome) : sexp :=
  match o with
  | HDelegated => SList [SAtom "delegated"]
  | HNone => SList [SAtom "nohover"]
  | HErr m => SList [SAtom "err"; SStr m]
  | HHover c r => SList [SAtom "hover"; match c with Some s => SStr s | None => SList [] end; sexp_of_range r]
  end.

(* (hovers BODY SCHEMA ((POS OBSERVED)...)) *)
Definition run_hovers (args : list sexp) : option sexp :=
  match args with
  | b :: bs :: SList pairs :: _ =>
      match Ast.body_of_sexp b, Schema.body_of_sexp bs with
      | Some b, Some bs =>
          let bad := flat_map (fun pr =>
            match pr with
            | SList [p; obs] =>
                match pos_of_sexp p with
                | Some pp => let o := hover_body pp b bs in
                             if hover_matches o obs then [] else [SList [p; sexp_of_hover o]]
                | None => [SList [p; SAtom "badpos"]]
                end
            | _ => [SAtom "badpair"]
            end) pairs in
          match bad with [] => Some (SList [SAtom "allok"]) | _ => Some (SList (SAtom "mismatch" :: bad)) end
      | _, _ => None
      end
  | _ => None
  end.
