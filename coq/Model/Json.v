(* JSON syntax: schema-driven decoding of a JSON body (ast.DecodeBody's JSON branch over hcl/json's
   PartialContent / JustAttributes / unpackBlock), the JSON rendering of a structured configuration,
   and the JSON spellings of a reference (expr_reference_ref_origins.go, JSON branch). *)
From Coq Require Import String Ascii List Bool Arith ZArith.
From HV Require Import Base.Sexp Model.Schema.
Import ListNotations.
Open Scope string_scope.

Inductive jval :=
| JNull
| JStr (s : string)
| JLit (s : string)          (* number / true / false, as written *)
| JArr (l : list jval)
| JObj (m : list (string * jval)).

(* the part of a body schema that decoding looks at: attribute names, AnyAttribute, block types with
   their number of labels, body and label-dependent bodies *)
(* what selects a dependent body: the value of a label, or of an attribute (as written, or its default) *)
Inductive jcond :=
| JCLabel (idx : nat) (value : string)
| JCAttr (name : string) (value : string) (default : option string).

(* [dyn]: the body enables the dynamic-blocks extension *)
Inductive jschema := JSch (attrs : list string) (any : bool) (blocks : list (string * jblock)) (dyn : bool)
with jblock := JBlk (nlabels : nat) (body : jschema) (dep : list (jcond * jschema)).

Definition js_attrs s := match s with JSch a _ _ _ => a end.
Definition js_any s := match s with JSch _ a _ _ => a end.
Definition js_blocks s := match s with JSch _ _ b _ => b end.
Definition js_dyn s := match s with JSch _ _ _ d => d end.
Definition jb_nlabels b := match b with JBlk n _ _ => n end.
Definition jb_body b := match b with JBlk _ b _ => b end.
Definition jb_dep b := match b with JBlk _ _ d => d end.

(* decoded content, without ranges; attributes in the order of the members (the implementation holds a map) *)
Inductive content := Content (attrs : list (string * jval)) (blocks : list (string * (list string * content))).

Definition mem (k : string) (l : list string) : bool := existsb (String.eqb k) l.

Definition is_some {A} (o : option A) : bool := match o with Some _ => true | None => false end.

(* collectDeepAttrs *)
Definition collect_deep (v : jval) : list (string * jval) :=
  match v with
  | JObj m => m
  | JArr l => flat_map (fun e => match e with JObj m => m | _ => [] end) l
  | _ => []
  end.

(* unpackBlock: peel n labels, then one block per object / array element *)
Fixpoint unpack (n : nat) (v : jval) (used : list string) : list (list string * jval) :=
  match n with
  | S n' => flat_map (fun m => unpack n' (snd m) (List.app used [fst m])) (collect_deep v)
  | O => match v with
         | JObj _ => [(used, v)]
         | JArr l => map (fun e => (used, e)) l
         | _ => []
         end
  end.

Definition jmerge (a b : jschema) : jschema :=
  JSch (List.app (js_attrs a) (js_attrs b)) (js_any a || js_any b) (List.app (js_blocks b) (js_blocks a)) (js_dyn a).

(* the dynamic-blocks extension (schemahelper.MergeBlockBodySchemas, buildDynamicBlockSchema): block types
   that may be generated get the extension themselves, and a block type "dynamic" - one label naming the
   generated type, which selects a body with exactly one block type "content" holding that type's body *)
Definition set_dyn (s : jschema) : jschema := JSch (js_attrs s) (js_any s) (js_blocks s) true.

Definition propagate_dyn (bs : list (string * jblock)) : list (string * jblock) :=
  map (fun tb => (fst tb, JBlk (jb_nlabels (snd tb)) (set_dyn (jb_body (snd tb))) (jb_dep (snd tb)))) bs.

Definition dynamic_block (types : list (string * jblock)) : jblock :=
  JBlk 1 (JSch ["for_each"; "iterator"; "labels"] false [] false)
       (map (fun tb => (JCLabel 0 (fst tb), JSch [] false [("content", JBlk 0 (jb_body (snd tb)) [])] false)) types).

(* the value of a key attribute in a JSON body: a plain string as written (strings are not evaluated
   as templates for this purpose), the default when the attribute is not written *)
Definition key_attr_value (bodyv : jval) (name : string) (default : option string) : option string :=
  match bodyv with
  | JObj m => match alookup name m with
              | Some (JStr s) => Some s
              | Some _ => None
              | None => default
              end
  | _ => default
  end.

Definition cond_holds (labels : list string) (bodyv : jval) (c : jcond) : bool :=
  match c with
  | JCLabel i v => match nth_error labels i with Some l => String.eqb l v | None => false end
  | JCAttr n v d => match key_attr_value bodyv n d with Some s => String.eqb s v | None => false end
  end.

(* the body schema of one block instance: its body merged with the dependent body selected by a
   label or by a key attribute of the instance's body *)
Definition inner_schema (b : jblock) (labels : list string) (bodyv : jval) : jschema :=
  let st := jb_body b in
  match find (fun d => cond_holds labels bodyv (fst d)) (jb_dep b) with
  | Some d =>
      if js_dyn st then
        (* the dependent body's block types may be generated *)
        let depb := propagate_dyn (js_blocks (snd d)) in
        let m := JSch (List.app (js_attrs st) (js_attrs (snd d))) (js_any st || js_any (snd d)) (List.app depb (js_blocks st)) true in
        match depb with
        | [] => m
        | _ => JSch (js_attrs m) (js_any m) (("dynamic", dynamic_block depb) :: js_blocks m) true
        end
      else jmerge st (snd d)
  | None =>
      (* no dependent body found (or none declared): with the extension, every block type may be generated *)
      if js_dyn st then
        match js_blocks st with
        | [] => st
        | _ => let pb := propagate_dyn (js_blocks st) in
               JSch (js_attrs st) (js_any st) (("dynamic", dynamic_block pb) :: pb) true
        end
      else st
  end.

(* the first member of each name wins ("Duplicate argument") *)
Fixpoint first_wins (seen : list string) (l : list (string * jval)) : list (string * jval) :=
  match l with
  | [] => []
  | m :: r => if mem (fst m) seen then first_wins seen r else m :: first_wins (fst m :: seen) r
  end.

Definition is_obj (v : jval) : bool := match v with JObj _ => true | _ => false end.

(* which members become attributes: the schema's attributes; with AnyAttribute (and an object) also every
   member that is neither a block type nor the comment key *)
Definition is_attr_member (sch : jschema) (v : jval) (k : string) : bool :=
  mem k (js_attrs sch) ||
  (js_any sch && is_obj v && negb (is_some (alookup k (js_blocks sch))) && negb (String.eqb k "//")).

Fixpoint concat_opt {A} (l : list (option (list A))) : option (list A) :=
  match l with
  | [] => Some []
  | None :: _ => None
  | Some x :: r => match concat_opt r with Some y => Some (List.app x y) | None => None end
  end.

Fixpoint jdecode (fuel : nat) (sch : jschema) (v : jval) : option content :=
  match fuel with
  | O => None
  | S f =>
      let members := collect_deep v in
      let attrs := first_wins [] (filter (fun m => is_attr_member sch v (fst m)) members) in
      match concat_opt (map (fun m =>
               if mem (fst m) (js_attrs sch) then Some [] else
               match alookup (fst m) (js_blocks sch) with
               | None => Some []
               | Some blk =>
                   map_opt (fun i => match jdecode f (inner_schema blk (fst i) (snd i)) (snd i) with
                                     | Some c => Some (fst m, (fst i, c))
                                     | None => None
                                     end)
                           (unpack (jb_nlabels blk) (snd m) [])
               end) members) with
      | Some blocks => Some (Content attrs blocks)
      | None => None
      end
  end.

(* ---- a configuration independent of syntax: attributes, and blocks grouped by type *)
Inductive dbody := DBody (attrs : list (string * jval)) (groups : list (string * list (list string * dbody))).

Fixpoint wrap (labels : list string) (j : jval) : jval :=
  match labels with
  | [] => j
  | l :: r => JObj [(l, wrap r j)]
  end.

Fixpoint to_json (d : dbody) : jval :=
  match d with
  | DBody attrs groups =>
      JObj (List.app attrs (map (fun g => (fst g, JArr (map (fun i => wrap (fst i) (to_json (snd i))) (snd g)))) groups))
  end.

(* what native syntax decodes to (hclsyntax bodies are read directly): the written attributes and blocks *)
Fixpoint ncontent (d : dbody) : content :=
  match d with
  | DBody attrs groups =>
      Content attrs (flat_map (fun g => map (fun i => (fst g, (fst i, ncontent (snd i)))) (snd g)) groups)
  end.

Fixpoint ddepth (d : dbody) : nat :=
  match d with
  | DBody _ groups =>
      S (fold_right Nat.max 0 (flat_map (fun g => map (fun i => ddepth (snd i)) (snd g)) groups))
  end.

Fixpoint nodupb (l : list string) : bool :=
  match l with [] => true | x :: r => negb (mem x r) && nodupb r end.

(* the configuration is expressible under the schema: names unique, attributes known (or AnyAttribute),
   block types known with the declared number of labels, recursively under the instance's schema *)
Fixpoint conforms (sch : jschema) (d : dbody) : bool :=
  match d with
  | DBody attrs groups =>
      nodupb (List.app (map fst attrs) (map fst groups)) &&
      forallb (fun a => mem (fst a) (js_attrs sch) ||
                        (js_any sch && negb (is_some (alookup (fst a) (js_blocks sch))) && negb (String.eqb (fst a) "//"))) attrs &&
      forallb (fun g => negb (mem (fst g) (js_attrs sch)) &&
                        match alookup (fst g) (js_blocks sch) with
                        | None => false
                        | Some blk => forallb (fun i => Nat.eqb (length (fst i)) (jb_nlabels blk) &&
                                                        conforms (inner_schema blk (fst i) (to_json (snd i))) (snd i)) (snd g)
                        end) groups
  end.

(* ---- references written in JSON strings *)
Definition in_range (c : ascii) (lo hi : nat) : bool :=
  let n := nat_of_ascii c in Nat.leb lo n && Nat.leb n hi.
Definition is_digit c := in_range c 48 57.
Definition is_ident_start c := in_range c 65 90 || in_range c 97 122 || Nat.eqb (nat_of_ascii c) 95.
Definition is_ident_char c := is_ident_start c || is_digit c || Nat.eqb (nat_of_ascii c) 45.

Inductive tstate := TStart | TIdent | TIdx0 | TIdx | TAfterIdx.

Definition tstep (st : tstate) (c : ascii) : option tstate :=
  match st with
  | TStart => if is_ident_start c then Some TIdent else None
  | TIdent => if is_ident_char c then Some TIdent
              else if Ascii.eqb c "." then Some TStart
              else if Ascii.eqb c "[" then Some TIdx0 else None
  | TIdx0 => if is_digit c then Some TIdx else None
  | TIdx => if is_digit c then Some TIdx else if Ascii.eqb c "]" then Some TAfterIdx else None
  | TAfterIdx => if Ascii.eqb c "." then Some TStart else if Ascii.eqb c "[" then Some TIdx0 else None
  end.

(* an absolute traversal of names, attribute steps and numeric index steps *)
Fixpoint trav_ok (st : tstate) (s : string) : bool :=
  match s with
  | EmptyString => match st with TIdent | TAfterIdx => true | _ => false end
  | String c r => match tstep st c with Some st' => trav_ok st' r | None => false end
  end.

Fixpoint drop_last_brace (s : string) : option string :=
  match s with
  | EmptyString => None
  | String c EmptyString => if Ascii.eqb c "}" then Some EmptyString else None
  | String c r => match drop_last_brace r with Some t => Some (String c t) | None => None end
  end.

(* "${" t "}" *)
Definition strip_interp (s : string) : option string :=
  match s with
  | String a (String b r) => if Ascii.eqb a "$" && Ascii.eqb b "{" then drop_last_brace r else None
  | _ => None
  end.

Definition legacy_ref (s : string) : option string := if trav_ok TStart s then Some s else None.

(* the address of the origin a JSON string yields under a reference constraint *)
Definition json_ref (s : string) : option string :=
  match strip_interp s with
  | Some t => if trav_ok TStart t then Some t else legacy_ref s
  | None => legacy_ref s
  end.

(* ---- S-expressions *)
Fixpoint jval_of_sexp (x : sexp) : option jval :=
  match x with
  | SList [SAtom "null"] => Some JNull
  | SList [SAtom "s"; SStr s] => Some (JStr s)
  | SList [SAtom "l"; SStr s] => Some (JLit s)
  | SList (SAtom "a" :: l) =>
      option_map JArr
      ((fix go (l : list sexp) : option (list jval) :=
         match l with
         | [] => Some []
         | e :: r => match jval_of_sexp e, go r with Some a, Some b => Some (a :: b) | _, _ => None end
         end) l)
  | SList (SAtom "o" :: l) =>
      option_map JObj
      ((fix go (l : list sexp) : option (list (string * jval)) :=
         match l with
         | [] => Some []
         | SList [SStr k; e] :: r => match jval_of_sexp e, go r with Some a, Some b => Some ((k, a) :: b) | _, _ => None end
         | _ => None
         end) l)
  | _ => None
  end.

Definition attrs_of_sexp (x : sexp) : option (list (string * jval)) :=
  do l <- as_list x;
  map_opt (fun e => match e with SList [SStr k; v] => do j <- jval_of_sexp v; Some (k, j) | _ => None end) l.

(* (sch (attr-names) any ((type nlabels body ((idx value dep)...))...) dyn) *)
Fixpoint jschema_of_sexp (x : sexp) : option jschema :=
  match x with
  | SList [SAtom "sch"; SList names; any; SList blocks; dyn] =>
      match map_opt as_str names, as_bool any, as_bool dyn,
            (fix go (l : list sexp) : option (list (string * jblock)) :=
               match l with
               | [] => Some []
               | SList [SStr t; n; body; SList deps] :: r =>
                   match as_Z n, jschema_of_sexp body,
                         (fix gd (l : list sexp) : option (list (jcond * jschema)) :=
                            match l with
                            | [] => Some []
                            | SList [i; SStr v; d] :: r =>
                                match as_Z i, jschema_of_sexp d, gd r with
                                | Some i, Some d, Some r => Some ((JCLabel (Z.to_nat i) v, d) :: r)
                                | _, _, _ => None
                                end
                            | SList [SAtom "attr"; SStr n; SStr v; df; d] :: r =>
                                match opt_of_sexp as_str df, jschema_of_sexp d, gd r with
                                | Some df, Some d, Some r => Some ((JCAttr n v df, d) :: r)
                                | _, _, _ => None
                                end
                            | _ => None
                            end) deps,
                         go r with
                   | Some n, Some b, Some d, Some r => Some ((t, JBlk (Z.to_nat n) b d) :: r)
                   | _, _, _, _ => None
                   end
               | _ => None
               end) blocks with
      | Some a, Some y, Some dy, Some b => Some (JSch a y b dy)
      | _, _, _, _ => None
      end
  | _ => None
  end.

(* (body ((name jval)...) ((type ((labels...) body)...)...)) *)
Fixpoint dbody_of_sexp (x : sexp) : option dbody :=
  match x with
  | SList [SAtom "body"; attrs; SList groups] =>
      match attrs_of_sexp attrs,
            (fix go (l : list sexp) : option (list (string * list (list string * dbody))) :=
               match l with
               | [] => Some []
               | SList [SStr t; SList insts] :: r =>
                   match (fix gi (l : list sexp) : option (list (list string * dbody)) :=
                            match l with
                            | [] => Some []
                            | SList [SList labels; b] :: r =>
                                match map_opt as_str labels, dbody_of_sexp b, gi r with
                                | Some ls, Some b, Some r => Some ((ls, b) :: r)
                                | _, _, _ => None
                                end
                            | _ => None
                            end) insts, go r with
                   | Some i, Some r => Some ((t, i) :: r)
                   | _, _ => None
                   end
               | _ => None
               end) groups with
      | Some a, Some g => Some (DBody a g)
      | _, _ => None
      end
  | _ => None
  end.

(* compact text of a value, as the harness' renderer writes expressions *)
Definition quote (s : string) : string := String """" (s ++ String """" "").

Fixpoint jtext (v : jval) : string :=
  match v with
  | JNull => "null"
  | JStr s => quote s
  | JLit s => s
  | JArr l => "[" ++ String.concat ", " (map jtext l) ++ "]"
  | JObj m => "{" ++ String.concat ", " (map (fun kv => quote (fst kv) ++ ": " ++ jtext (snd kv)) m) ++ "}"
  end.

Fixpoint insert_by_name {A} (x : string * A) (l : list (string * A)) : list (string * A) :=
  match l with
  | [] => [x]
  | y :: r => if String.leb (fst x) (fst y) then x :: l else y :: insert_by_name x r
  end.
Definition sort_by_name {A} (l : list (string * A)) : list (string * A) := fold_right insert_by_name [] l.

(* (content ((name text)...sorted by name) ((type (labels...) content)...)) *)
Fixpoint sexp_of_content (c : content) : sexp :=
  match c with
  | Content attrs blocks =>
      SList [SAtom "content";
             SList (map (fun a => SList [SStr (fst a); SStr (jtext (snd a))]) (sort_by_name attrs));
             SList (map (fun b => SList [SStr (fst b); SList (map SStr (fst (snd b))); sexp_of_content (snd (snd b))]) blocks)]
  end.

Fixpoint jsize (v : jval) : nat :=
  match v with
  | JArr l => S (fold_right (fun e n => jsize e + n) 0 l)
  | JObj m => S (fold_right (fun e n => jsize (snd e) + n) 0 m)
  | _ => 1
  end.

Definition run_json (kind : string) (args : list sexp) : option sexp :=
  if String.eqb kind "jsondecode" then
    match args with
    | [sch; v] =>
        do s <- jschema_of_sexp sch; do j <- jval_of_sexp v;
        match jdecode (S (jsize j)) s j with
        | Some c => Some (sexp_of_content c)
        | None => Some (SList [SAtom "out-of-fuel"])
        end
    | _ => None
    end
  else if String.eqb kind "nativedecode" then
    match args with
    | [d] => do b <- dbody_of_sexp d; Some (sexp_of_content (ncontent b))
    | _ => None
    end
  else if String.eqb kind "tojson" then
    (* the JSON rendering of the configuration, decoded again under the schema *)
    match args with
    | [sch; d] =>
        do s <- jschema_of_sexp sch; do b <- dbody_of_sexp d;
        if conforms s b then
          match jdecode (S (ddepth b)) s (to_json b) with
          | Some c => Some (SList [SAtom "conforms"; sexp_of_content c])
          | None => Some (SList [SAtom "out-of-fuel"])
          end
        else Some (SList [SAtom "does-not-conform"])
    | _ => None
    end
  else if String.eqb kind "jsonref" then
    match args with
    | [SStr s] => Some (match json_ref s with Some t => SList [SAtom "origin"; SStr t] | None => SList [SAtom "none"] end)
    | _ => None
    end
  else None.
