(* Dispatcher used by both evaluation routes (vm_compute in cases.v, extracted runner). *)
From Coq Require Import String List Bool.
From HV Require Import Base.Sexp Model.DepKeys Model.Merge Model.Validate Model.Ref Model.Completion Model.BodyQueries Model.Signature Model.Hover Model.Collect Model.Snippet Model.Json Model.Origins Model.OriginsBody Model.ValueTargets Model.TargetsBody Model.ValueTokens Model.Links Model.ValueHover Model.FuncCands Model.HookCands Model.TypeHover Model.ValueCands Model.HoverData Model.AttrDetail.
Import ListNotations.
Open Scope string_scope.

Definition run_kind (kind : string) (args : list sexp) : option sexp :=
  if String.eqb kind "schemakey" then run_schemakey args
  else if String.eqb kind "merge" then run_merge args
  else if String.eqb kind "validate" then run_validate args
  else if String.eqb kind "completion" then run_completion args
  else if String.eqb kind "completions" then run_completions args
  else if String.eqb kind "signatures" then run_signatures args
  else if String.eqb kind "ecd" then run_ecd args
  else if String.eqb kind "ehd" then run_ehd args
  else if String.eqb kind "attrhover" then run_attr_hover args
  else if String.eqb kind "hovers" then run_hovers args
  else if String.eqb kind "tokens" then run_tokens args
  else if String.eqb kind "symbols" then run_symbols args
  else match run_collect kind args with Some r => Some r | None =>
       match run_json kind args with Some r => Some r | None =>
       match run_origins kind args with Some r => Some r | None =>
       match run_origins_body kind args with Some r => Some r | None =>
       match run_value_targets kind args with Some r => Some r | None =>
       match run_targets_body kind args with Some r => Some r | None =>
       match run_value_tokens kind args with Some r => Some r | None =>
       match run_links kind args with Some r => Some r | None =>
       match run_value_hover kind args with Some r => Some r | None =>
       match run_func_cands kind args with Some r => Some r | None =>
       match run_hook_cands kind args with Some r => Some r | None =>
       match run_type_hover kind args with Some r => Some r | None =>
       match run_value_cands kind args with Some r => Some r | None => run_ref kind args end end end end end end end end end end end end end.

(* (case <id> (<kind> args...) <observed>)  ->  (<id> ok) | (<id> diff <model-output>) | (<id> badinput) *)
Definition run_case (c : sexp) : sexp :=
  match c with
  | SList [SAtom tag; id; SList (SAtom kind :: args); observed] =>
      if String.eqb tag "case" then
        match run_kind kind args with
        | Some out =>
            if sexp_eqb out (SList [SAtom "delegated"]) then SList [id; SAtom "skip"]   (* not modelled at this position *)
            else if sexp_eqb out (SList [SAtom "allok"]) then SList [id; SAtom "ok"]
            else if sexp_eqb out observed then SList [id; SAtom "ok"] else SList [id; SAtom "diff"; out]
        | None => SList [id; SAtom "badinput"]
        end
      else SList [SAtom "badcase"]
  | _ => SList [SAtom "badcase"]
  end.

Definition run_line (s : string) : string :=
  match parse_one s with
  | Some c => show (run_case c)
  | None => "(parse-error)"
  end.

(* for cases.v: the ids of all cases that are not "ok", with the model's answer *)
Fixpoint not_ok (l : list string) : list string :=
  match l with
  | [] => []
  | s :: r =>
      let out := run_line s in
      match parse_one out with
      | Some (SList [_; SAtom st]) => if String.eqb st "ok" then not_ok r else out :: not_ok r
      | _ => out :: not_ok r
      end
  end.
