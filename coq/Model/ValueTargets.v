(* Reference targets declared by the VALUE of an attribute: the descent of
   decoder/expr_{any,literal_type,list,set,tuple,map,object,one_of,reference}_ref_targets.go and
   PathDecoder.decodeReferenceTargetsForAttribute (native syntax).

   The expression is the syntax tree as the library's own helpers see it (hcl.ExprList, hcl.ExprMap,
   rawObjectKey, isEmptyExpression, expr.Value(&hcl.EvalContext{}) without error diagnostics), every
   node annotated with its range and with the type of its static value where it has one.

   Recursion is on fuel: the constraint does not decrease (a literal type unfolds into list / object
   constraints of its element types, a dynamic type is replaced by the type of the written value)
   and the expression does not decrease either (attributes an object does not declare are visited
   with a synthetic empty expression).  Fuel exhaustion is the error value None. *)
From Coq Require Import String Ascii List ZArith Bool.
From HV Require Import Base.Sexp Base.Str Base.SortSpec Base.Pos Model.Addr Model.DepKeys Model.Schema Model.Ref.
Import ListNotations.
Open Scope string_scope.
Open Scope list_scope.

Inductive texpr :=
| EEmpty (rng : range)                                         (* hcl-lang's synthetic empty expression *)
| EFor (rng : range) (vt : option ty)                          (* *hclsyntax.ForExpr *)
| ETuple (rng : range) (vt : option ty) (elems : list texpr)   (* hcl.ExprList succeeds *)
| EObject (rng : range) (vt : option ty) (items : list titem)  (* hcl.ExprMap succeeds *)
| ETrav (rng : range) (vt : option ty) (addr : option address) (* *hclsyntax.ScopeTraversalExpr, TraversalToAddress *)
| ELeaf (rng : range) (vt : option ty)                         (* anything else *)
with titem :=
| TItem (key : option string) (krng : range) (v : texpr).      (* rawObjectKey, item.Key.Range(), item.Value *)

Definition e_rng (e : texpr) : range :=
  match e with EEmpty r | EFor r _ | ETuple r _ _ | EObject r _ _ | ETrav r _ _ | ELeaf r _ => r end.

(* the type of expr.Value(&hcl.EvalContext{}) when that reports no error; the synthetic empty
   expression is the literal cty.DynamicVal *)
Definition e_vt (e : texpr) : option ty :=
  match e with EEmpty _ => Some TDyn | EFor _ v | ETuple _ v _ | EObject _ v _ | ETrav _ v _ | ELeaf _ v => v end.

Definition is_empty_expr (e : texpr) : bool := match e with EEmpty _ => true | _ => false end.
Definition is_for_expr (e : texpr) : bool := match e with EFor _ _ => true | _ => false end.

Definition ti_key (i : titem) := match i with TItem k _ _ => k end.
Definition ti_krng (i : titem) := match i with TItem _ r _ => r end.
Definition ti_val (i : titem) := match i with TItem _ _ v => v end.

(* decoder.TargetContext *)
Record tctx := {
  tc_name : string; tc_scope : string; tc_as_type : bool; tc_as_ref : bool;
  tc_addr : address; tc_local : option address; tc_from : option range;
  tc_rng : option range; tc_def : option range }.

(* TargetContext.Copy() keeps neither ParentRangePtr nor ParentDefRangePtr *)
Definition ctx_copy (c : tctx) : tctx :=
  {| tc_name := tc_name c; tc_scope := tc_scope c; tc_as_type := tc_as_type c; tc_as_ref := tc_as_ref c;
     tc_addr := tc_addr c; tc_local := tc_local c; tc_from := tc_from c; tc_rng := None; tc_def := None |}.

Definition ctx_push (c : tctx) (s : step) (rng def : option range) : tctx :=
  {| tc_name := tc_name c; tc_scope := tc_scope c; tc_as_type := tc_as_type c; tc_as_ref := tc_as_ref c;
     tc_addr := tc_addr c ++ [s]; tc_local := option_map (fun a => a ++ [s]) (tc_local c); tc_from := tc_from c;
     tc_rng := rng; tc_def := def |}.

Definition local_of (c : tctx) : address := match tc_local c with Some a => a | None => [] end.
Definition rng_of (c : tctx) (e : texpr) : option range :=
  Some (match tc_rng c with Some r => r | None => e_rng e end).

(* the target of a primitive / dynamic value and of a for expression: no name, no nested targets *)
Definition plain_target (c : tctx) (e : texpr) (t : ty) : target :=
  Target (tc_addr c) (local_of c) (tc_from c) (tc_scope c) (rng_of c e) (tc_def c) t "" [].

(* the target of a whole collection *)
Definition whole_target (c : tctx) (e : texpr) (t : ty) (nested : list target) : target :=
  Target (tc_addr c) (local_of c) (tc_from c) (tc_scope c) (rng_of c e) (tc_def c) t (tc_name c) nested.

Definition is_prim (t : ty) : bool := match t with TStr | TNum | TBool => true | _ => false end.

(* hclsyntax.ValidIdentifier on ASCII names *)
Definition in_rng (c : ascii) (lo hi : nat) : bool := let n := nat_of_ascii c in Nat.leb lo n && Nat.leb n hi.
Definition id_start (c : ascii) : bool := in_rng c 65 90 || in_rng c 97 122 || Nat.eqb (nat_of_ascii c) 95.
Definition id_char (c : ascii) : bool := id_start c || in_rng c 48 57 || Nat.eqb (nat_of_ascii c) 45.
Fixpoint all_chars (f : ascii -> bool) (s : string) : bool :=
  match s with EmptyString => true | String c r => f c && all_chars f r end.
Definition valid_identifier (s : string) : bool :=
  match s with EmptyString => false | String c r => id_start c && all_chars id_char r end.

Definition attr_step (name : string) : step := if valid_identifier name then SAttr name else SIdxStr name.

(* Constraint.ConstraintType() of the type-aware constraints *)
Fixpoint cons_type (c : constraint) : option ty :=
  let fix all (l : list constraint) : option (list ty) :=
    match l with
    | [] => Some []
    | a :: r => match cons_type a, all r with Some t, Some ts => Some (t :: ts) | _, _ => None end
    end in
  let fix first (l : list constraint) : option ty :=
    match l with
    | [] => None
    | a :: r => match cons_type a with Some t => Some t | None => first r end
    end in
  let fix attrs (l : list (string * attr_schema)) : option (list (string * (ty * bool))) :=
    match l with
    | [] => Some []
    | (n, AttrSchema _ _ _ c _ _ _ _) :: r =>
        match cons_type c, attrs r with Some t, Some ts => Some ((n, (t, false)) :: ts) | _, _ => None end
    end in
  match c with
  | CAny t _ | CLitType t _ | CLitValue _ t _ => Some t
  | CList (Some e) _ _ => option_map TList (cons_type e)
  | CSet (Some e) _ _ => option_map TSet (cons_type e)
  | CMap (Some e) _ _ _ _ => option_map TMap (cons_type e)
  | CTuple es => option_map TTuple (all es)
  | CObject ats _ _ _ => option_map TObject (attrs ats)
  | COneOf cs => first cs
  | _ => None
  end.

Definition ocons_type (c : option constraint) : option ty :=
  match c with Some c => cons_type c | None => None end.

(* the object attributes an object TYPE stands for (ctyObjectToObjectAttributes) *)
Definition lit_attrs (ats : list (string * (ty * bool))) : list (string * constraint) :=
  map (fun a => (fst a, CLitType (fst (snd a)) false)) ats.
Definition obj_attrs (ats : list (string * attr_schema)) : list (string * constraint) :=
  map (fun a => (fst a, as_cons (snd a))) ats.

(* Object.ConstraintType() on the (name, constraint) view *)
Fixpoint attrs_type (l : list (string * constraint)) : option (list (string * (ty * bool))) :=
  match l with
  | [] => Some []
  | (n, c) :: r => match cons_type c, attrs_type r with Some t, Some ts => Some ((n, (t, false)) :: ts) | _, _ => None end
  end.

Fixpoint all_types (l : list constraint) : option (list ty) :=
  match l with
  | [] => Some []
  | a :: r => match cons_type a, all_types r with Some t, Some ts => Some (t :: ts) | _, _ => None end
  end.

(* declaredAttributes: the last item written for a known name wins *)
Fixpoint declared (names : list string) (items : list titem) (acc : list (string * titem)) : list (string * titem) :=
  match items with
  | [] => acc
  | i :: r =>
      match ti_key i with
      | Some k => if existsb (String.eqb k) names
                  then declared names r ((k, i) :: filter (fun p => negb (String.eqb (fst p) k)) acc)
                  else declared names r acc
      | None => declared names r acc
      end
  end.

Fixpoint lookup_item (l : list (string * titem)) (k : string) : option titem :=
  match l with [] => None | (n, i) :: r => if String.eqb n k then Some i else lookup_item r k end.

Fixpoint concat_opt {A} (l : list (option (list A))) : option (list A) :=
  match l with
  | [] => Some []
  | None :: _ => None
  | Some a :: r => match concat_opt r with Some b => Some (a ++ b) | None => None end
  end.

Fixpoint mapi_from {A B} (f : nat -> A -> B) (i : nat) (l : list A) : list B :=
  match l with [] => [] | a :: r => f i a :: mapi_from f (S i) r end.

Definition sort_targets (l : list target) : list target := stable_sort targets_less l.

Section Descent.
  (* the recursive call with less fuel *)
  Variable rec : constraint -> option tctx -> texpr -> option (list target).

  Definition whole_coll (mk : ty -> ty) (elem : option constraint) (c : tctx) (e : texpr) (nested : list target) : list target :=
    match ocons_type elem with
    | Some t => if tc_as_type c then [whole_target c e (mk t) nested] else []
    | None => []
    end.

  Definition elem_ctx (ctx : option tctx) (i : nat) : option tctx :=
    option_map (fun c => ctx_push (ctx_copy c) (SIdxNum (Z.of_nat i)) None None) ctx.

  Definition list_targets (elem : option constraint) (ctx : option tctx) (e : texpr) : option (list target) :=
    match is_empty_expr e, ctx with
    | true, Some c => Some (whole_coll TList elem c e [])
    | _, _ =>
        match e with
        | ETuple _ _ elems =>
            match elem with
            | None => Some []
            | Some ec =>
                match concat_opt (mapi_from (fun i x => rec ec (elem_ctx ctx i) x) 0 elems) with
                | None => None
                | Some ets => Some (match ctx with None => ets | Some c => whole_coll TList elem c e ets end)
                end
            end
        | _ => Some []
        end
    end.

  (* set elements are not addressable: under a context nothing inside is collected *)
  Definition set_targets (elem : option constraint) (ctx : option tctx) (e : texpr) : option (list target) :=
    match is_empty_expr e, ctx with
    | true, Some c => Some (whole_coll TSet elem c e [])
    | _, _ =>
        match e with
        | ETuple _ _ elems =>
            match elem with
            | None => Some []
            | Some ec =>
                match ctx with
                | None => concat_opt (map (fun x => rec ec None x) elems)
                | Some c => Some (whole_coll TSet elem c e [])
                end
            end
        | _ => Some []
        end
    end.

  Definition tuple_elems (cs : list constraint) (ctx : option tctx) (e : texpr) (written : list texpr) : option (list target) :=
    concat_opt (mapi_from (fun i ec =>
      rec ec (elem_ctx ctx i) (nth i written (EEmpty (empty_range_at (r_file (e_rng e)) (r_start (e_rng e)))))) 0 cs).

  Definition whole_tuple (cs : list constraint) (c : tctx) (e : texpr) (nested : list target) : list target :=
    match all_types cs with
    | Some ts => if tc_as_type c then [whole_target c e (TTuple ts) nested] else []
    | None => []
    end.

  Definition tuple_targets (cs : list constraint) (ctx : option tctx) (e : texpr) : option (list target) :=
    match ctx with
    | Some c =>
        if is_empty_expr e then option_map (whole_tuple cs c e) (tuple_elems cs ctx e [])
        else if is_for_expr e then Some [plain_target c e TDyn]
        else match e with
             | ETuple _ _ elems => option_map (whole_tuple cs c e) (tuple_elems cs ctx e elems)
             | _ => Some []
             end
    | None =>
        match e with
        | ETuple _ _ elems => tuple_elems cs None e elems
        | _ => Some []
        end
    end.

  Definition item_ctx (ctx : option tctx) (s : step) (i : titem) : option tctx :=
    option_map (fun c => ctx_push (ctx_copy c) s (Some (range_between (ti_krng i) (e_rng (ti_val i)))) (Some (ti_krng i))) ctx.

  Definition map_targets (elem : option constraint) (ctx : option tctx) (e : texpr) : option (list target) :=
    match is_empty_expr e, ctx with
    | true, Some c => Some (whole_coll TMap elem c e [])
    | _, _ =>
        match e with
        | EObject _ _ items =>
            match elem with
            | None => Some []
            | Some ec =>
                match concat_opt (map (fun i => match ti_key i with
                                                | None => Some []
                                                | Some k => rec ec (item_ctx ctx (SIdxStr k) i) (ti_val i)
                                                end) items) with
                | None => None
                | Some ets => let s := sort_targets ets in
                              Some (match ctx with None => s | Some c => whole_coll TMap elem c e s end)
                end
            end
        | _ => Some []
        end
    end.

  Definition object_attrs (ats : list (string * constraint)) (ctx : option tctx) (e : texpr) (decl : list (string * titem)) : option (list target) :=
    concat_opt (map (fun a =>
      match lookup_item decl (fst a) with
      | Some i => rec (snd a) (item_ctx ctx (attr_step (fst a)) i) (ti_val i)
      | None => rec (snd a) (option_map (fun c => ctx_push (ctx_copy c) (attr_step (fst a)) None None) ctx)
                    (EEmpty (empty_range_at (r_file (e_rng e)) (r_start (e_rng e))))
      end) ats).

  Definition whole_object (ats : list (string * constraint)) (c : tctx) (e : texpr) (nested : list target) : list target :=
    if tc_as_type c then
      match attrs_type ats with
      | Some ts => [whole_target c e (TObject ts) nested]
      | None => []
      end
    else [].

  Definition object_targets (ats : list (string * constraint)) (ctx : option tctx) (e : texpr) : option (list target) :=
    match ctx with
    | Some c =>
        if is_empty_expr e then option_map (whole_object ats c e) (object_attrs ats ctx e [])
        else if is_for_expr e then Some [plain_target c e TDyn]
        else match e with
             | EObject _ _ items => option_map (whole_object ats c e) (object_attrs ats ctx e (declared (map fst ats) items []))
             | _ => Some []
             end
    | None =>
        match e with
        | EObject _ _ items => object_attrs ats None e (declared (map fst ats) items [])
        | _ => Some []
        end
    end.

  (* what a value of a (literal or any-expression) TYPE declares *)
  Definition by_type (typ : ty) (ctx : option tctx) (e : texpr) : option (list target) :=
    match typ with
    | TList el => list_targets (Some (CLitType el false)) ctx e
    | TSet el => set_targets (Some (CLitType el false)) ctx e
    | TTuple ts => tuple_targets (map (fun t => CLitType t false) ts) ctx e
    | TMap el => map_targets (Some (CLitType el false)) ctx e
    | TObject ats => object_targets (lit_attrs ats) ctx e
    | _ => Some []
    end.

  Definition effective_type (t : ty) (e : texpr) : ty :=
    if is_dyn t then match e_vt e with Some t' => t' | None => t end else t.

  Definition typed_targets (is_any : bool) (t : ty) (ctx : option tctx) (e : texpr) : option (list target) :=
    let typ := effective_type t e in
    match ctx with
    | None => Some []
    | Some c =>
        match tc_addr c with
        | [] => Some []
        | _ =>
            if negb (tc_as_type c) then Some []
            else if is_any then
              (if is_prim typ || is_dyn typ then Some [plain_target c e typ] else by_type typ ctx e)
            else if is_prim typ then
              (if is_empty_expr e then Some [plain_target c e typ]
               else match e_vt e with
                    | Some t' => if ty_eqb t' typ then Some [plain_target c e typ] else Some []
                    | None => Some []
                    end)
            else by_type typ ctx e
        end
    end.

  Fixpoint one_of (cs : list constraint) (ctx : option tctx) (e : texpr) : option (list target) :=
    match cs with
    | [] => Some []
    | c :: r =>
        match c with
        | CLitValue _ _ _ | CKeyword _ _ | CTypeDecl => one_of r ctx e    (* no ReferenceTargets method *)
        | _ => match rec c ctx e with
               | None => None
               | Some [] => one_of r ctx e
               | Some ts => Some ts
               end
        end
    end.

  Definition step_targets (c : constraint) (ctx : option tctx) (e : texpr) : option (list target) :=
    match c with
    | CAny t _ => typed_targets true t ctx e
    | CLitType t _ => typed_targets false t ctx e
    | CRef _ _ name (Some sc) =>
        match e with
        | ETrav rng _ (Some a) => Some [Target a [] None sc (Some rng) None TNil name []]
        | _ => Some []
        end
    | CRef _ _ _ None => Some []
    | CList elem _ _ => list_targets elem ctx e
    | CSet elem _ _ => set_targets elem ctx e
    | CTuple cs => tuple_targets cs ctx e
    | CMap elem _ _ _ _ => map_targets elem ctx e
    | CObject ats _ _ _ => object_targets (obj_attrs ats) ctx e
    | COneOf cs => one_of cs ctx e
    | CLitValue _ _ _ | CKeyword _ _ | CTypeDecl => Some []
    end.
End Descent.

Fixpoint value_targets (fuel : nat) (c : constraint) (ctx : option tctx) (e : texpr) : option (list target) :=
  match fuel with
  | O => None
  | S n => step_targets (value_targets n) c ctx e
  end.

(* ---- decodeReferenceTargetsForAttribute ---- *)
(* schema.AttributeAddrSchema: steps (static name / the attribute's name), flags *)
Inductive vstep := VStatic (n : string) | VName | VOther.
Record attr_addr := { aa_steps : list vstep; aa_name : string; aa_scope : string; aa_as_type : bool; aa_as_ref : bool }.

Fixpoint vresolve_steps (attr_name : string) (first : bool) (l : list vstep) : option address :=
  match l with
  | [] => Some []
  | s :: r =>
      match (match s with VStatic n => Some n | VName => Some attr_name | VOther => None end) with
      | None => None
      | Some n => option_map (cons (if first then SRoot n else SAttr n)) (vresolve_steps attr_name false r)
      end
  end.

(* resolveAttributeAddress: an empty schema address does not resolve *)
Definition resolve_attr_addr (attr_name : string) (l : list vstep) : option address :=
  match l with [] => None | _ => vresolve_steps attr_name true l end.

Definition is_targets_expr (c : constraint) : bool :=
  match c with CLitValue _ _ _ | CKeyword _ _ | CTypeDecl => false | _ => true end.

Definition attr_targets (fuel : nat) (attr_name : string) (attr_rng name_rng : range)
           (aa : option attr_addr) (c : constraint) (e : texpr) : option (list target) :=
  if negb (is_targets_expr c) then Some []
  else
    match aa with
    | None => value_targets fuel c None e
    | Some a =>
        let addr := resolve_attr_addr attr_name (aa_steps a) in
        let ctx := match addr with
                   | Some ad => if aa_as_type a || aa_as_ref a
                                then Some {| tc_name := aa_name a; tc_scope := aa_scope a; tc_as_type := aa_as_type a;
                                             tc_as_ref := aa_as_ref a; tc_addr := ad; tc_local := None; tc_from := None;
                                             tc_rng := Some attr_rng; tc_def := Some name_rng |}
                                else None
                   | None => None
                   end in
        let own := if aa_as_ref a
                   then [Target (match addr with Some ad => ad | None => [] end) [] None (aa_scope a)
                                (Some attr_rng) (Some name_rng) TNil (aa_name a) []]
                   else [] in
        option_map (fun ts => own ++ ts) (value_targets fuel c ctx e)
    end.

(* ---------------- reader / runner entry ---------------- *)
Definition oty_of_sexp (x : sexp) : option (option ty) :=
  match x with SList [] => Some None | _ => option_map Some (ty_of_sexp x) end.

Definition oaddr_of_sexp (x : sexp) : option (option address) :=
  match x with SAtom "none" => Some None | _ => option_map Some (addr_of_sexp x) end.

Fixpoint texpr_of_sexp (x : sexp) : option texpr :=
  let fix many (l : list sexp) : option (list texpr) :=
    match l with
    | [] => Some []
    | a :: r => match texpr_of_sexp a, many r with Some e, Some es => Some (e :: es) | _, _ => None end
    end in
  let fix items (l : list sexp) : option (list titem) :=
    match l with
    | [] => Some []
    | SList [k; kr; v] :: r =>
        match (match k with SStr s => Some (Some s) | SList [] => Some None | _ => None end),
              range_of_sexp kr, texpr_of_sexp v, items r with
        | Some k, Some kr, Some v, Some rs => Some (TItem k kr v :: rs)
        | _, _, _, _ => None
        end
    | _ => None
    end in
  match x with
  | SList [SAtom "empty"; r] => option_map EEmpty (range_of_sexp r)
  | SList [SAtom "for"; r; vt] =>
      match range_of_sexp r, oty_of_sexp vt with Some r, Some vt => Some (EFor r vt) | _, _ => None end
  | SList [SAtom "tuple"; r; vt; SList es] =>
      match range_of_sexp r, oty_of_sexp vt, many es with Some r, Some vt, Some es => Some (ETuple r vt es) | _, _, _ => None end
  | SList [SAtom "object"; r; vt; SList its] =>
      match range_of_sexp r, oty_of_sexp vt, items its with Some r, Some vt, Some its => Some (EObject r vt its) | _, _, _ => None end
  | SList [SAtom "trav"; r; vt; a] =>
      match range_of_sexp r, oty_of_sexp vt, oaddr_of_sexp a with Some r, Some vt, Some a => Some (ETrav r vt a) | _, _, _ => None end
  | SList [SAtom "leaf"; r; vt] =>
      match range_of_sexp r, oty_of_sexp vt with Some r, Some vt => Some (ELeaf r vt) | _, _ => None end
  | _ => None
  end.

Definition vstep_of_sexp (x : sexp) : option vstep :=
  match x with
  | SList [SAtom "static"; SStr n] => Some (VStatic n)
  | SAtom "attrname" => Some VName
  | SAtom "other" => Some VOther
  | _ => None
  end.

Definition attr_addr_of_sexp (x : sexp) : option (option attr_addr) :=
  match x with
  | SList [] => Some None
  | SList [SList steps; SStr name; SStr scope; ty; rf] =>
      match map_opt vstep_of_sexp steps, as_bool ty, as_bool rf with
      | Some steps, Some ty, Some rf =>
          Some (Some {| aa_steps := steps; aa_name := name; aa_scope := scope; aa_as_type := ty; aa_as_ref := rf |})
      | _, _, _ => None
      end
  | _ => None
  end.

(* (attrtargets name attr-range name-range addr-schema constraint expr) -> targets, sorted as
   decodeReferenceTargetsForBody sorts the targets of a body *)
Definition run_value_targets (kind : string) (args : list sexp) : option sexp :=
  if String.eqb kind "attrtargets" then
    match args with
    | [SStr name; ar; nr; aa; c; e] =>
        match range_of_sexp ar, range_of_sexp nr, attr_addr_of_sexp aa, cons_of_sexp c, texpr_of_sexp e with
        | Some ar, Some nr, Some aa, Some c, Some e =>
            match attr_targets 40 name ar nr aa c e with
            | Some ts => Some (SList (map sexp_of_target (sort_targets ts)))
            | None => Some (SList [SAtom "out-of-fuel"])
            end
        | _, _, _, _, _ => None
        end
    | _ => None
    end
  else None.
