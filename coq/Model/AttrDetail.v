(* What the hover on an attribute NAME says and what the completion candidate of an attribute carries as detail:
   decoder/attribute_candidates.go detailForAttribute, decoder/expr_object_hover.go hoverContentForAttribute,
   schema/constraint_*.go FriendlyName, go-cty's Type.FriendlyNameForConstraint. *)
From Coq Require Import String Ascii List ZArith Bool.
From HV Require Import Base.Sexp Base.Str Model.Addr Model.DepKeys Model.Schema Model.Merge.
Import ListNotations.
Open Scope string_scope.

(* cty.Type.FriendlyNameForConstraint *)
Fixpoint friendly_c (t : ty) : string :=
  let elem (e : ty) := match e with TDyn => "any single type" | _ => friendly_c e end in
  match t with
  | TNil => ""
  | TDyn => "any type"
  | TBool => "bool"
  | TNum => "number"
  | TStr => "string"
  | TList e => "list of " ++ elem e
  | TSet e => "set of " ++ elem e
  | TMap e => "map of " ++ elem e
  | TTuple _ => "tuple"
  | TObject _ => "object"
  end.

Definition is_nil_ty (t : ty) : bool := match t with TNil => true | _ => false end.

Definition mem_str (s : string) (l : list string) : bool := existsb (String.eqb s) l.

(* Constraint.FriendlyName *)
Fixpoint cons_friendly (c : constraint) : string :=
  let of_elem (word : string) (e : option constraint) :=
    match e with
    | Some ec => let n := cons_friendly ec in if String.eqb n "" then word else word ++ " of " ++ n
    | None => word
    end in
  match c with
  | CAny t _ => friendly_c t
  | CLitType t _ => friendly_c t
  | CLitValue _ t _ => friendly_c t
  | CKeyword _ name => if String.eqb name "" then "keyword" else name
  | CRef _ t name _ => if negb (String.eqb name "") then name else if negb (is_nil_ty t) then friendly_c t else "reference"
  | CTypeDecl => "type"
  | CList e _ _ => of_elem "list" e
  | CSet e _ _ => of_elem "set" e
  | CTuple _ => "tuple"
  | CMap e name _ _ _ => if String.eqb name "" then of_elem "map" e else name
  | CObject _ _ name _ => if String.eqb name "" then "object" else name
  | COneOf cs =>
      let fix names (l : list constraint) (acc : list string) : list string :=
        match l with
        | [] => rev acc
        | x :: r => let n := cons_friendly x in
                    if String.eqb n "" || mem_str n acc then names r acc else names r (n :: acc)
        end in
      join " or " (names cs [])
  end.

(* detailForAttribute: the marks in a fixed order, then the friendly name of the constraint *)
Definition detail_marks (f : attr_flags) : list string :=
  List.app (if af_writeonly f then ["write-only"] else [])
  (List.app (if af_required f then ["required"] else if af_optional f then ["optional"] else [])
            (if af_sensitive f then ["sensitive"] else [])).

Definition attr_detail (a : attr_schema) : string :=
  let n := cons_friendly (as_cons a) in
  join ", " (List.app (detail_marks (as_flags a)) (if String.eqb n "" then [] else [n])).

(* hoverContentForAttribute *)
Definition attr_hover_content (name : string) (a : attr_schema) : string :=
  "**" ++ name ++ "** _" ++ attr_detail a ++ "_" ++
  (if String.eqb (as_desc a) "" then "" else nl ++ nl ++ as_desc a).

(* (attrhover "name" ATTR) -> (ah "hover content" "candidate detail"); (attrhover "name" ATTR hover-only) -> (ahc "hover content") *)
Definition run_attr_hover (args : list sexp) : option sexp :=
  match args with
  | [SStr name; a] =>
      match attr_of_sexp a with
      | Some a => Some (SList [SAtom "ah"; SStr (attr_hover_content name a); SStr (attr_detail a)])
      | None => None
      end
  | [SStr name; a; _] =>   (* computed-only attributes are not offered as candidates: hover only *)
      match attr_of_sexp a with
      | Some a => Some (SList [SAtom "ahc"; SStr (attr_hover_content name a)])
      | None => None
      end
  | _ => None
  end.
