(* Exactness of the per-item diagnostics of the validation model (Model/Validate.v): how many of each kind. *)
From Coq Require Import String List ZArith Bool Lia.
From HV Require Import Base.Sexp Base.Str Base.Pos Model.Addr Model.DepKeys Model.Schema Model.Ast Model.Merge Model.Validate.
Import ListNotations.
Local Open Scope nat_scope.

Definition kind_is (k : diag_kind) (d : diag) : bool :=
  match k, d_kind d with
  | KUnexpectedAttr, KUnexpectedAttr | KUnexpectedBlock, KUnexpectedBlock | KTooManyLabels, KTooManyLabels
  | KNotEnoughLabels, KNotEnoughLabels => true
  | _, _ => false
  end.

Definition count_kind (k : diag_kind) (ds : list diag) : nat := length (filter (kind_is k) ds).

(* exactly one "unexpected attribute" error for an attribute the effective schema does not know (none where the schema
   itself is unknown), none for an attribute it knows *)
Theorem unexpected_attribute_count unknown s a :
  count_kind KUnexpectedAttr (attr_diags unknown s a) =
  match s with None => if unknown then 0 else 1 | Some _ => 0 end.
Proof.
  unfold count_kind, attr_diags. destruct s as [sc|].
  - rewrite app_nil_r. destruct (af_deprecated (as_flags sc)); reflexivity.
  - destruct unknown; reflexivity.
Qed.

(* one "too many labels" error per surplus label: written labels minus the labels the schema declares *)
Lemma surplus_count valid type : forall rngs i,
  count_kind KTooManyLabels (surplus_label_diags valid i type rngs) = length (filter (fun j => Nat.leb valid j) (seq i (length rngs))).
Proof.
  induction rngs as [|r l IH]; intro i; cbn [surplus_label_diags length seq filter]; [reflexivity|].
  unfold count_kind in *. rewrite filter_app, app_length, IH.
  destruct (Nat.leb valid i); cbn; reflexivity.
Qed.

Lemma filter_leb_seq valid : forall n i, length (filter (fun j => Nat.leb valid j) (seq i n)) = (i + n - Nat.max valid i)%nat.
Proof.
  induction n as [|n IH]; intro i; cbn [seq filter length]; [lia|].
  destruct (Nat.leb valid i) eqn:E; cbn [length]; rewrite IH.
  - apply Nat.leb_le in E. lia.
  - apply Nat.leb_gt in E. lia.
Qed.

Theorem surplus_label_count valid type rngs :
  count_kind KTooManyLabels (surplus_label_diags valid 0 type rngs) = (length rngs - valid)%nat.
Proof. rewrite surplus_count, filter_leb_seq. lia. Qed.

(* a block the schema knows: one error per surplus label, one "not enough labels" error iff labels are missing, never
   "unexpected"; a block it does not know: exactly one "unexpected block" error (none where the schema is unknown) *)
Theorem block_diag_counts unknown s k :
  match s with
  | Some sc =>
      count_kind KUnexpectedBlock (block_diags unknown s k) = 0 /\
      count_kind KNotEnoughLabels (block_diags unknown s k) = (if Nat.ltb (length (k_labels k)) (length (bk_labels sc)) then 1 else 0) /\
      count_kind KTooManyLabels (block_diags unknown s k) =
        (length (firstn (length (k_labels k)) (k_label_rngs k)) - length (bk_labels sc))%nat
  | None => count_kind KUnexpectedBlock (block_diags unknown s k) = (if unknown then 0 else 1)
  end.
Proof.
  destruct s as [sc|]; [|unfold count_kind, block_diags; destruct unknown; reflexivity].
  unfold block_diags.
  assert (Hs : forall kd, kd <> KTooManyLabels -> forall l i,
             count_kind kd (surplus_label_diags (length (bk_labels sc)) i (k_type k) l) = 0).
  { intros kd Hkd. induction l as [|r l IH]; intro i; cbn [surplus_label_diags]; [reflexivity|].
    unfold count_kind in *. rewrite filter_app, app_length, IH.
    destruct (Nat.leb _ i); cbn; [|reflexivity]. destruct kd; try reflexivity. contradiction. }
  unfold count_kind in *. repeat split.
  - rewrite !filter_app, !app_length, (Hs KUnexpectedBlock) by discriminate.
    destruct (Nat.ltb _ _); destruct (bk_deprecated sc); reflexivity.
  - rewrite !filter_app, !app_length, (Hs KNotEnoughLabels) by discriminate.
    destruct (Nat.ltb _ _); destruct (bk_deprecated sc); reflexivity.
  - rewrite !filter_app, !app_length. fold (count_kind KTooManyLabels (surplus_label_diags (length (bk_labels sc)) 0 (k_type k) (firstn (length (k_labels k)) (k_label_rngs k)))).
    rewrite surplus_label_count. destruct (Nat.ltb _ _); destruct (bk_deprecated sc); cbn; lia.
Qed.
