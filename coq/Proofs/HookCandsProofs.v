(* Attribute values with completion hooks: edit range, limit, order, completeness flag. *)
From Coq Require Import String List Bool ZArith Lia Arith.
From HV Require Import Base.Sexp Base.Pos Model.Completion Model.HookCands.
Import ListNotations.

(* ---- the edit range of hook candidates *)
Local Open Scope Z_scope.

Lemma hook_edit_range_starts_before_cursor e em p :
  p_byte (r_start (hook_edit_range e em p)) <= p_byte p.
Proof.
  unfold hook_edit_range. destruct em; cbn.
  - destruct (Z.ltb (p_byte p) (p_byte (r_start e))) eqn:H; cbn; [lia|apply Z.ltb_ge in H; exact H].
  - destruct (Z.ltb (p_byte p) (p_byte (r_start e))) eqn:H; cbn; [lia|apply Z.ltb_ge in H; exact H].
Qed.

Lemma hook_edit_range_reaches_cursor e em p :
  (em = false -> p_byte p <= p_byte (r_end e)) ->
  p_byte p <= p_byte (r_end (hook_edit_range e em p)).
Proof.
  intros H. unfold hook_edit_range. destruct em; cbn.
  - destruct (Z.ltb (p_byte p) (p_byte (r_start e))); cbn; lia.
  - specialize (H eq_refl). destruct (Z.ltb (p_byte p) (p_byte (r_start e))); cbn; lia.
Qed.

Lemma hook_edit_range_ends_at_cursor e p : r_end (hook_edit_range e true p) = p.
Proof. unfold hook_edit_range. cbn. destruct (Z.ltb (p_byte p) (p_byte (r_start e))); reflexivity. Qed.

Section Good.
  Variable fname : string.
  Variable lc : Z -> option (Z * Z).

  (* a real, self-consistent range of the requested file that contains the cursor *)
  Theorem hook_edit_range_good e em p :
    good_range fname lc e -> good_pos lc p -> (em = false -> p_byte p <= p_byte (r_end e)) ->
    good_range fname lc (hook_edit_range e em p) /\
    p_byte (r_start (hook_edit_range e em p)) <= p_byte p <= p_byte (r_end (hook_edit_range e em p)).
  Proof.
    intros (F & S & E & L) Hp Hem. split.
    - unfold hook_edit_range, good_range. destruct em; cbn.
      + destruct (Z.ltb (p_byte p) (p_byte (r_start e))) eqn:H; cbn; repeat split; auto; try lia.
        all: apply Z.ltb_ge in H; try exact H.
      + specialize (Hem eq_refl).
        destruct (Z.ltb (p_byte p) (p_byte (r_start e))) eqn:H; cbn; repeat split; auto; lia.
    - split; [apply hook_edit_range_starts_before_cursor|apply hook_edit_range_reaches_cursor; exact Hem].
  Qed.
End Good.

(* the range as it was computed before the fix: the start was only pulled back to the cursor for an
   empty or multi-line value.  A cursor right behind the equals sign of [name =  "x"] was given the
   range of "x", which starts after the cursor. *)
Definition hook_edit_range_prefix (e : range) (empty_or_multiline : bool) (p : pos) : range :=
  if empty_or_multiline then
    let r1 := with_end e p in
    if Z.ltb (p_byte p) (p_byte (r_start r1)) then with_start r1 p else r1
  else e.

Example hook_edit_range_prefix_refuted :
  let e := {| r_file := "main.tf"; r_start := {| p_line := 1; p_col := 9; p_byte := 8 |}; r_end := {| p_line := 1; p_col := 12; p_byte := 11 |} |} in
  let p := {| p_line := 1; p_col := 7; p_byte := 6 |} in
  p_byte p < p_byte (r_start (hook_edit_range_prefix e false p)) /\
  p_byte (r_start (hook_edit_range e false p)) <= p_byte p.
Proof. cbn. lia. Qed.

(* ---- limit, order, completeness *)
Local Open Scope nat_scope.

Section P.
  Variable max : nat.

  Definition all_hook_results (has_hooks string_typed : bool) (results : list (list hcand)) : list hcand :=
    if has_hooks then (if string_typed then concat results else []) else [].

  Definition as_hook (er : range) (h : hcand) : ocand := {| oc_label := h_label h; oc_range := er; oc_hook := true |}.
  Definition as_expr (c : string * range) : ocand := {| oc_label := fst c; oc_range := snd c; oc_hook := false |}.

  (* the list is the hook results in schema order followed by the expression's candidates, cut at the limit *)
  Theorem attr_value_completion_list has_hooks string_typed results er exprc :
    snd (attr_value_completion max has_hooks string_typed results er exprc) =
    firstn max (map (as_hook er) (all_hook_results has_hooks string_typed results) ++ map as_expr exprc).
  Proof.
    unfold attr_value_completion, all_hook_results, hook_candidates.
    set (H := if has_hooks then (if string_typed then concat results else []) else []).
    assert (EH : (if has_hooks then (if string_typed then firstn max (concat results) else []) else []) = firstn max H).
    { unfold H. destruct has_hooks, string_typed; try reflexivity; destruct max; reflexivity. }
    rewrite EH. fold (as_hook er). fold as_expr.
    rewrite map_length. rewrite firstn_length.
    destruct (Nat.leb max (Nat.min max (length H))) eqn:E1.
    - apply Nat.leb_le in E1. cbn [snd].
      assert (HL : max <= length H) by lia.
      rewrite firstn_app. rewrite map_length.
      replace (max - length H) with 0 by lia. cbn [firstn]. rewrite app_nil_r.
      rewrite firstn_map. reflexivity.
    - apply Nat.leb_gt in E1. assert (HL : length H < max) by lia.
      rewrite (firstn_all2 H) by lia.
      replace (Nat.min max (length H)) with (length H) by lia.
      rewrite firstn_app, map_length. rewrite (firstn_all2 (map (as_hook er) H)) by (rewrite map_length; lia).
      rewrite map_length.
      destruct (Nat.ltb (max - length H) (length exprc)) eqn:E2; cbn [snd]; [reflexivity|].
      apply Nat.ltb_ge in E2. rewrite firstn_all2 by (rewrite map_length; lia). reflexivity.
  Qed.

  (* never more than the limit *)
  Theorem attr_value_completion_within_limit has_hooks string_typed results er exprc :
    length (snd (attr_value_completion max has_hooks string_typed results er exprc)) <= max.
  Proof. rewrite attr_value_completion_list. rewrite firstn_length. lia. Qed.

  Theorem attr_value_completion_list_within_limit has_hooks string_typed results er exprc :
    snd (attr_value_completion max has_hooks string_typed results er exprc) =
      firstn max (map (as_hook er) (all_hook_results has_hooks string_typed results) ++ map as_expr exprc) /\
    length (snd (attr_value_completion max has_hooks string_typed results er exprc)) <= max.
  Proof. split; [apply attr_value_completion_list|apply attr_value_completion_within_limit]. Qed.

  (* marked complete only when no hook may add more and nothing was left out *)
  Theorem attr_value_completion_complete has_hooks string_typed results er exprc :
    fst (attr_value_completion max has_hooks string_typed results er exprc) = true ->
    has_hooks = false /\
    snd (attr_value_completion max has_hooks string_typed results er exprc) = map as_expr exprc /\
    length exprc <= max.
  Proof.
    unfold attr_value_completion, hook_candidates. destruct has_hooks.
    - destruct (Nat.leb max _); [cbn; discriminate|]. destruct (Nat.ltb _ _); cbn; discriminate.
    - cbn [map length app]. destruct (Nat.leb max 0) eqn:E1; [cbn; discriminate|].
      apply Nat.leb_gt in E1. rewrite Nat.sub_0_r, map_length.
      destruct (Nat.ltb max (length exprc)) eqn:E2; [cbn; discriminate|].
      apply Nat.ltb_ge in E2. cbn. intros _. split; [reflexivity|]. split; [reflexivity|exact E2].
  Qed.
End P.
