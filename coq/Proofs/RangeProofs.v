(* C02: ranges emitted by the modelled queries are ranges of the syntax tree, hence good
   whenever the parser's ranges are. *)
From Coq Require Import String List ZArith Bool Lia.
From HV Require Import Base.Sexp Base.Pos Model.Schema Model.Ast Model.Merge Model.Validate Proofs.ValidateProofs.
Import ListNotations.

Section G.
  Variable fname : string.
  Variable lc : Z -> option (Z * Z).

  Lemma diagnostic_subjects_good b u s :
    Forall (good_range fname lc) (item_ranges b) ->
    Forall (fun d => good_range fname lc (d_subject d)) (walk_body u s b).
  Proof.
    intros H. apply Forall_forall. intros d Hd.
    rewrite Forall_forall in H. apply H. eapply walk_subjects_are_item_ranges; eauto.
  Qed.
End G.
