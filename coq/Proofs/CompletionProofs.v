From Coq Require Import String List ZArith Bool Lia Permutation Sorted.
From HV Require Import Base.Sexp Base.Str Base.Pos Base.SortSpec Model.Addr Model.DepKeys Model.Schema Model.Ast Model.Merge Model.Completion.
Import ListNotations.

Section Body.
  Variable max : Z.
  Variable b : body.
  Variable bs : body_schema.
  Variable prefix : string.
  Variable edit : range.

  Definition attr_ok (p : string * attr_schema) : bool :=
    negb (is_ext_name bs (fst p)) && is_attr_declarable b (fst p) (snd p) && has_prefix prefix (fst p).
  Definition attr_cand (p : string * attr_schema) : cand :=
    {| c_label := fst p; c_kind := CKAttr; c_rng := edit; c_desc := as_desc (snd p); c_deprecated := af_deprecated (as_flags (snd p)) |}.

  Definition block_ok (p : string * block_schema) : bool :=
    negb (match alookup (fst p) (bs_attrs bs) with Some _ => true | None => false end) &&
    is_block_declarable b (fst p) (snd p) && has_prefix prefix (fst p).
  Definition block_cand (p : string * block_schema) : cand :=
    {| c_label := fst p; c_kind := CKBlock; c_rng := edit; c_desc := bk_desc (snd p); c_deprecated := bk_deprecated (snd p) |}.

  (* the attribute loop: count tracks the list length, never passes the limit, and when it does
     not stop early it has added exactly the admissible attributes, in schema (name) order *)
  Lemma attr_loop_spec l : forall acc count,
    count = Z.of_nat (length acc) ->
    let '(acc', count', stop) := attr_loop max b bs prefix edit l acc count in
    count' = Z.of_nat (length acc') /\
    (count <= max -> count' <= max)%Z /\
    (stop = false -> acc' = acc ++ map attr_cand (filter attr_ok l))%list.
  Proof.
    induction l as [|[name s] rest IH]; intros acc count Hc; cbn [attr_loop].
    - repeat split; auto. intros _. cbn. now rewrite app_nil_r.
    - unfold attr_ok at 1. cbn [fst snd filter].
      destruct (is_ext_name bs name) eqn:E0; cbn [negb andb].
      { specialize (IH acc count Hc). destruct (attr_loop _ _ _ _ _ rest acc count) as [[a c] st].
        destruct IH as (H1 & H2 & H3). repeat split; auto. }
      destruct (is_attr_declarable b name s) eqn:E1; cbn [negb andb].
      2:{ specialize (IH acc count Hc). destruct (attr_loop _ _ _ _ _ rest acc count) as [[a c] st].
          destruct IH as (H1 & H2 & H3). repeat split; auto. }
      destruct (has_prefix prefix name) eqn:E2; cbn [negb andb].
      2:{ specialize (IH acc count Hc). destruct (attr_loop _ _ _ _ _ rest acc count) as [[a c] st].
          destruct IH as (H1 & H2 & H3). repeat split; auto. }
      destruct (Z.leb max count) eqn:E3.
      + repeat split; auto. discriminate.
      + apply Z.leb_gt in E3.
        assert (Hc' : (count + 1)%Z = Z.of_nat (length (acc ++ [attr_cand (name, s)]))).
        { rewrite app_length. cbn. lia. }
        specialize (IH (acc ++ [attr_cand (name, s)])%list (count + 1)%Z Hc').
        unfold attr_cand at 1 in IH. cbn [fst snd] in IH.
        destruct (attr_loop _ _ _ _ _ rest _ _) as [[a c] st].
        destruct IH as (H1 & H2 & H3). repeat split; auto.
        * intros _. apply H2. lia.
        * intros Hs. rewrite (H3 Hs). rewrite <- app_assoc. reflexivity.
  Qed.

  Lemma block_loop_spec l : forall acc count,
    count = Z.of_nat (length acc) ->
    let '(acc', count', stop) := block_loop max b bs prefix edit l acc count in
    count' = Z.of_nat (length acc') /\
    (count <= max -> count' <= max)%Z /\
    (stop = false -> acc' = acc ++ map block_cand (filter block_ok l))%list.
  Proof.
    induction l as [|[t s] rest IH]; intros acc count Hc; cbn [block_loop].
    - repeat split; auto. intros _. cbn. now rewrite app_nil_r.
    - unfold block_ok at 1. cbn [fst snd filter].
      destruct (match alookup t (bs_attrs bs) with Some _ => true | None => false end) eqn:E0; cbn [negb andb].
      { specialize (IH acc count Hc). destruct (block_loop _ _ _ _ _ rest acc count) as [[a c] st].
        destruct IH as (H1 & H2 & H3). repeat split; auto. }
      destruct (is_block_declarable b t s) eqn:E1; cbn [negb andb].
      2:{ specialize (IH acc count Hc). destruct (block_loop _ _ _ _ _ rest acc count) as [[a c] st].
          destruct IH as (H1 & H2 & H3). repeat split; auto. }
      destruct (has_prefix prefix t) eqn:E2; cbn [negb andb].
      2:{ specialize (IH acc count Hc). destruct (block_loop _ _ _ _ _ rest acc count) as [[a c] st].
          destruct IH as (H1 & H2 & H3). repeat split; auto. }
      destruct (Z.leb max count) eqn:E3.
      + repeat split; auto. discriminate.
      + apply Z.leb_gt in E3.
        assert (Hc' : (count + 1)%Z = Z.of_nat (length (acc ++ [block_cand (t, s)]))).
        { rewrite app_length. cbn. lia. }
        specialize (IH (acc ++ [block_cand (t, s)])%list (count + 1)%Z Hc').
        unfold block_cand at 1 in IH. cbn [fst snd] in IH.
        destruct (block_loop _ _ _ _ _ rest _ _) as [[a c] st].
        destruct IH as (H1 & H2 & H3). repeat split; auto.
        * intros _. apply H2. lia.
        * intros Hs. rewrite (H3 Hs). rewrite <- app_assoc. reflexivity.
  Qed.

  Definition any_cands : list cand :=
    match bs_attrs bs, bs_any bs with
    | [], Some s => if String.eqb prefix "" then
        [{| c_label := "name"; c_kind := CKAttr; c_rng := edit; c_desc := as_desc s; c_deprecated := af_deprecated (as_flags s) |}] else []
    | _, _ => []
    end.

  (* what the effective schema still allows here *)
  Definition allowed : list cand :=
    (ext_cands b bs prefix edit ++ map attr_cand (filter attr_ok (bs_attrs bs)) ++ any_cands
       ++ map block_cand (filter block_ok (bs_blocks bs)))%list.

  Lemma ext_cands_length : (length (ext_cands b bs prefix edit) <= 2)%nat.
  Proof. unfold ext_cands. rewrite app_length. destruct (_ && _ && _), (_ && _ && _); cbn; lia. Qed.

  (* a list marked complete is exactly (a sorted permutation of) what is allowed: no matching
     candidate was left out, nothing else was offered *)
  Theorem complete_list_is_exact :
    cs_complete (body_schema_candidates max b bs prefix edit) = true ->
    cs_list (body_schema_candidates max b bs prefix edit) = stable_sort cand_ltb allowed.
  Proof.
    unfold body_schema_candidates, allowed, any_cands.
    set (acc0 := ext_cands b bs prefix edit).
    destruct (bs_attrs bs) as [|a0 ats] eqn:EA.
    - (* no named attributes *)
      cbn [filter map app].
      destruct (bs_any bs) as [s|].
      + destruct (String.eqb prefix "") eqn:EP.
        * destruct (Z.leb max (Z.of_nat (length acc0))) eqn:EL; [cbn; discriminate|].
          pose proof (block_loop_spec (bs_blocks bs) (acc0 ++ [ {| c_label := "name"; c_kind := CKAttr; c_rng := edit; c_desc := as_desc s;
                         c_deprecated := af_deprecated (as_flags s) |} ])%list (Z.of_nat (length acc0) + 1)%Z) as HB.
          rewrite app_length in HB. cbn [length] in HB.
          assert (HH : (Z.of_nat (length acc0) + 1)%Z = Z.of_nat (length acc0 + 1)) by lia.
          specialize (HB HH).
          destruct (block_loop _ _ _ _ _ (bs_blocks bs) _ _) as [[a2 c2] st2]. destruct HB as (_ & _ & H3).
          destruct st2; [cbn; discriminate|]. cbn. intros _. rewrite (H3 eq_refl), <- app_assoc. reflexivity.
        * pose proof (block_loop_spec (bs_blocks bs) acc0 (Z.of_nat (length acc0)) eq_refl) as HB.
          destruct (block_loop _ _ _ _ _ (bs_blocks bs) _ _) as [[a2 c2] st2]. destruct HB as (_ & _ & H3).
          destruct st2; [cbn; discriminate|]. cbn. intros _. now rewrite (H3 eq_refl).
      + pose proof (block_loop_spec (bs_blocks bs) acc0 (Z.of_nat (length acc0)) eq_refl) as HB.
        destruct (block_loop _ _ _ _ _ (bs_blocks bs) _ _) as [[a2 c2] st2]. destruct HB as (_ & _ & H3).
        destruct st2; [cbn; discriminate|]. cbn. intros _. now rewrite (H3 eq_refl).
    - pose proof (attr_loop_spec (a0 :: ats) acc0 (Z.of_nat (length acc0)) eq_refl) as HA.
      destruct (attr_loop _ _ _ _ _ (a0 :: ats) _ _) as [[a1 c1] st1]. destruct HA as (HA1 & _ & HA3).
      destruct st1; [cbn; discriminate|].
      pose proof (block_loop_spec (bs_blocks bs) a1 c1 HA1) as HB.
      destruct (block_loop _ _ _ _ _ (bs_blocks bs) _ _) as [[a2 c2] st2]. destruct HB as (_ & _ & H3).
      destruct st2; [cbn; discriminate|]. cbn [cs_list cs_complete]. intros _.
      rewrite (H3 eq_refl), (HA3 eq_refl). cbn [app]. rewrite <- !app_assoc. reflexivity.
  Qed.

  Lemma cand_asym x y : cand_ltb x y = true -> cand_ltb y x = false.
  Proof.
    unfold cand_ltb, String.ltb. rewrite (String.compare_antisym (c_label y)).
    destruct (String.compare (c_label x) (c_label y)); simpl; congruence.
  Qed.

  Lemma cand_le_trans x y z : le cand_ltb x y -> le cand_ltb y z -> le cand_ltb x z.
  Proof.
    unfold le, cand_ltb. intros H1 H2.
    destruct (String.ltb (c_label z) (c_label x)) eqn:E; [|reflexivity]. exfalso.
    apply ltb_slt in E.
    destruct (slt_total (c_label y) (c_label x)) as [H|[H|H]].
    - apply ltb_slt in H. congruence.
    - rewrite H in H2. apply ltb_slt in E. congruence.
    - pose proof (slt_trans _ _ _ E H) as H3. apply ltb_slt in H3. congruence.
  Qed.

  (* ... and it is sorted by name *)
  Theorem complete_list_is_sorted :
    cs_complete (body_schema_candidates max b bs prefix edit) = true ->
    StronglySorted (le cand_ltb) (cs_list (body_schema_candidates max b bs prefix edit)).
  Proof.
    intros H. rewrite (complete_list_is_exact H).
    apply stable_sort_sorted; [apply cand_asym|apply cand_le_trans].
  Qed.

  (* the list never exceeds the limit *)
  Theorem list_within_limit : (2 <= max)%Z ->
    (Z.of_nat (length (cs_list (body_schema_candidates max b bs prefix edit))) <= max)%Z.
  Proof.
    intros Hm. unfold body_schema_candidates.
    set (acc0 := ext_cands b bs prefix edit).
    assert (H0 : (Z.of_nat (length acc0) <= max)%Z) by (pose proof ext_cands_length; unfold acc0; lia).
    assert (Hsort : forall l, length (stable_sort cand_ltb l) = length l)
      by (intros l; apply Permutation_length, Permutation_sym, stable_sort_perm).
    destruct (bs_attrs bs) as [|a0 ats].
    - destruct (bs_any bs) as [s|].
      + destruct (String.eqb prefix "").
        * destruct (Z.leb max (Z.of_nat (length acc0))) eqn:EL; [cbn; exact H0|]. apply Z.leb_gt in EL.
          pose proof (block_loop_spec (bs_blocks bs) (acc0 ++ [ {| c_label := "name"; c_kind := CKAttr; c_rng := edit; c_desc := as_desc s;
                         c_deprecated := af_deprecated (as_flags s) |} ])%list (Z.of_nat (length acc0) + 1)%Z) as HB.
          rewrite app_length in HB. cbn [length] in HB.
          assert (HH : (Z.of_nat (length acc0) + 1)%Z = Z.of_nat (length acc0 + 1)) by lia.
          specialize (HB HH).
          destruct (block_loop _ _ _ _ _ (bs_blocks bs) _ _) as [[a2 c2] st2]. destruct HB as (H1 & H2 & _).
          destruct st2; cbn [cs_list]; rewrite ?Hsort; lia.
        * pose proof (block_loop_spec (bs_blocks bs) acc0 (Z.of_nat (length acc0)) eq_refl) as HB.
          destruct (block_loop _ _ _ _ _ (bs_blocks bs) _ _) as [[a2 c2] st2]. destruct HB as (H1 & H2 & _).
          destruct st2; cbn [cs_list]; rewrite ?Hsort; lia.
      + pose proof (block_loop_spec (bs_blocks bs) acc0 (Z.of_nat (length acc0)) eq_refl) as HB.
        destruct (block_loop _ _ _ _ _ (bs_blocks bs) _ _) as [[a2 c2] st2]. destruct HB as (H1 & H2 & _).
        destruct st2; cbn [cs_list]; rewrite ?Hsort; lia.
    - pose proof (attr_loop_spec (a0 :: ats) acc0 (Z.of_nat (length acc0)) eq_refl) as HA.
      destruct (attr_loop _ _ _ _ _ (a0 :: ats) _ _) as [[a1 c1] st1]. destruct HA as (HA1 & HA2 & _).
      destruct st1; [cbn [cs_list]; lia|].
      pose proof (block_loop_spec (bs_blocks bs) a1 c1 HA1) as HB.
      destruct (block_loop _ _ _ _ _ (bs_blocks bs) _ _) as [[a2 c2] st2]. destruct HB as (H1 & H2 & _).
      destruct st2; cbn [cs_list]; rewrite ?Hsort; lia.
  Qed.
End Body.

(* a block type at its maximum count is not offered, and validation accepts one more block of
   every offered type: completion's "declarable" and the MaxBlocks validator agree *)
Lemma offered_block_does_not_exceed_max b t s :
  is_block_declarable b t s = true -> (bk_max s = 0 \/ count_type (b_blocks b) t + 1 <= bk_max s)%Z.
Proof.
  unfold is_block_declarable. rewrite orb_true_iff, Z.eqb_eq, Z.ltb_lt. lia.
Qed.
