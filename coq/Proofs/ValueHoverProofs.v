(* Hover inside attribute values (Model/ValueHover.v): the range of the hover data contains the cursor, for
   every constraint and expression shape, at any depth - the descent only enters parts that contain the
   cursor and answers with the range of such a part (or of a key .. value item whose key contains it). *)
From Coq Require Import String List ZArith Bool Lia.
From HV Require Import Base.Sexp Base.Str Base.SortSpec Base.Pos Model.Addr Model.DepKeys Model.Schema Model.Ast Model.Merge
                       Model.Ref Model.Collect Model.Origins Model.ValueTargets Model.BodyQueries Model.ValueTokens Model.ValueHover
                       Proofs.ValueTargetsProofs Proofs.ValueTokensProofs.
Import ListNotations.
Open Scope string_scope.
Open Scope list_scope.

Lemma contains_inside (p : pos) a b : contains_pos a p = true -> inside a b -> contains_pos b p = true.
Proof.
  unfold contains_pos, contains_offset, inside. intros H (_ & S & E).
  apply andb_prop in H as (H1 & H2). apply Z.leb_le in H1. apply Z.ltb_lt in H2.
  apply andb_true_intro. split; [apply Z.leb_le|apply Z.ltb_lt]; lia.
Qed.

(* what hover relies on beyond wf_s: a parenthesised key IS the key, a key ends no later than its value *)
Inductive wfh : sexpr -> Prop :=
| WhS r vt n : wfh_node n -> wfh (SE r vt n)
with wfh_node : snode -> Prop :=
| HTrav a b c : wfh_node (NTrav a b c)
| HLit t : wfh_node (NLit t)
| HTemplate lit parts : Forall wfh parts -> wfh_node (NTemplate lit parts)
| HWrap e : wfh e -> wfh_node (NWrap e)
| HTuple elems : Forall wfh elems -> wfh_node (NTuple elems)
| HObject items : Forall wfh_item items -> wfh_node (NObject items)
| HBinary rt p1 p2 a b : wfh a -> wfh b -> wfh_node (NBinary rt p1 p2 a b)
| HUnary rt p e : wfh e -> wfh_node (NUnary rt p e)
| HParens e : wfh e -> wfh_node (NParens e)
| HCond c a b : wfh c -> wfh a -> wfh b -> wfh_node (NCond c a b)
| HFor coll k v c : wfh coll -> (forall x, k = Some x -> wfh x) -> wfh v -> (forall x, c = Some x -> wfh x) -> wfh_node (NFor coll k v c)
| HIndex k : wfh k -> wfh_node (NIndex k)
| HCall name nr args : Forall wfh args -> wfh_node (NCall name nr args)
| HOther : wfh_node NOther
with wfh_item : sitem -> Prop :=
| HItem kr k v :
    (p_byte (r_end kr) <= p_byte (r_end (se_rng v)))%Z -> wfh v ->
    (forall pe, k = SKParens pe -> se_rng pe = kr /\ wfh pe) -> wfh_item (SItem kr k v).

Definition hover_ok (p : pos) (h : hres) : Prop := forall r, h = Some (Some r) -> contains_pos r p = true.

Lemma hover_ok_nil p : hover_ok p hnil.
Proof. intros r E. discriminate. Qed.
Lemma hover_ok_none p : hover_ok p None.
Proof. intros r E. discriminate. Qed.
Lemma hover_ok_ret p r : contains_pos r p = true -> hover_ok p (hret r).
Proof. intros H r' E. injection E as <-. exact H. Qed.

Lemma find_at p l x : find (fun y => contains_pos (se_rng y) p) l = Some x -> In x l /\ contains_pos (se_rng x) p = true.
Proof. intros H. apply find_some in H. exact H. Qed.

Section StepOk.
  Variable funcs : fsigs.
  Variable vals : list (range * sexp).
  Variable parens opens : range_table.
  Variable typeok : list range.
  Variable p : pos.
  Variable rec : constraint -> sexpr -> hres.
  Variable rec_type : sexpr -> hres.
  Hypothesis Hrec : forall c e, wf_s e -> wfh e -> contains_pos (se_rng e) p = true -> hover_ok p (rec c e).
  Hypothesis Hrec_type : forall e, wf_s e -> wfh e -> contains_pos (se_rng e) p = true -> hover_ok p (rec_type e).

  Ltac open_h e Hw Hh r vt n Hn Hhn :=
    destruct e as [r vt n]; inversion Hw as [? ? ? Hn]; inversion Hh as [? ? ? Hhn]; subst; cbn [se_rng se_node se_vt] in *.

  Lemma orec_ok c e : wf_s e -> wfh e -> contains_pos (se_rng e) p = true -> hover_ok p (orec rec c e).
  Proof. intros. destruct c; cbn [orec]; [apply Hrec; assumption|apply hover_ok_nil]. Qed.

  Lemma list_hover_ok elem e : wf_s e -> wfh e -> contains_pos (se_rng e) p = true -> hover_ok p (list_hover p rec elem e).
  Proof.
    intros Hw Hh Hc. open_h e Hw Hh r vt n Hn Hhn. unfold list_hover. cbn [se_node se_rng].
    destruct n; try apply hover_ok_nil. inversion Hn; subst. inversion Hhn; subst.
    unfold first_at, at_pos. destruct (find _ elems) as [x|] eqn:Ef; [|apply hover_ok_ret; exact Hc].
    destruct (find_at _ _ _ Ef) as (Hin & Hx).
    match goal with H : Forall (fun q => inside (se_rng q) r /\ wf_s q) elems |- _ => rewrite Forall_forall in H; destruct (H x Hin) end.
    match goal with H : Forall wfh elems |- _ => rewrite Forall_forall in H; specialize (H x Hin) end.
    apply orec_ok; assumption.
  Qed.

  Lemma tuple_walk_ok r cs elems h :
    Forall (fun q => inside (se_rng q) r /\ wf_s q) elems -> Forall wfh elems ->
    tuple_walk p rec cs elems = Some h -> hover_ok p h.
  Proof.
    intros HF HH. revert cs. induction elems as [|x xs IH]; intros [|c cs'] H; cbn [tuple_walk] in H; try discriminate.
    inversion HF as [|? ? (Hi & Hwx) HFl]; subst. inversion HH as [|? ? Hhx HHl]; subst.
    unfold at_pos in H. destruct (contains_pos (se_rng x) p) eqn:Ec.
    - injection H as <-. apply Hrec; assumption.
    - apply (IH HFl HHl cs'). exact H.
  Qed.

  Lemma tuple_hover_ok cs e : wf_s e -> wfh e -> contains_pos (se_rng e) p = true -> hover_ok p (tuple_hover p rec cs e).
  Proof.
    intros Hw Hh Hc. open_h e Hw Hh r vt n Hn Hhn. unfold tuple_hover. cbn [se_node se_rng].
    destruct n; try apply hover_ok_nil. inversion Hn; subst. inversion Hhn; subst.
    destruct (tuple_walk p rec cs elems) as [h|] eqn:Et; [|apply hover_ok_ret; exact Hc].
    eapply tuple_walk_ok; eassumption.
  Qed.

  Lemma item_facts r kr k v :
    wf_item r (SItem kr k v) -> wfh_item (SItem kr k v) ->
    wf_s v /\ wfh v /\
    (contains_pos kr p = true -> contains_pos (range_between kr (se_rng v)) p = true) /\
    (forall pe, k = SKParens pe -> contains_pos kr p = true -> wf_s pe /\ wfh pe /\ contains_pos (se_rng pe) p = true).
  Proof.
    intros Hw Hh. inversion Hw as [? ? ? ? Hk Hv Hwv Hp]; subst. inversion Hh as [? ? ? Hke Hhv Hhp]; subst.
    split; [exact Hwv|]. split; [exact Hhv|]. split.
    - unfold contains_pos, contains_offset, range_between; cbn. intros H. apply andb_prop in H as (H1 & H2).
      apply Z.leb_le in H1. apply Z.ltb_lt in H2. apply andb_true_intro. split; [apply Z.leb_le|apply Z.ltb_lt]; lia.
    - intros pe -> Hc. destruct (Hp pe eq_refl) as (_ & Hwp). destruct (Hhp pe eq_refl) as (Hr & Hhpe).
      split; [exact Hwp|]. split; [exact Hhpe|]. rewrite Hr. exact Hc.
  Qed.

  Lemma map_walk_ok r elem interp items h :
    Forall (wf_item r) items -> Forall wfh_item items -> map_walk p rec elem interp items = Some h -> hover_ok p h.
  Proof.
    intros HF HH. induction items as [|i l IH]; intros H; cbn [map_walk] in H; [discriminate|].
    inversion HF as [|? ? Hwi HFl]; subst. inversion HH as [|? ? Hhi HHl]; subst.
    destruct i as [kr k v]. destruct (item_facts _ _ _ _ Hwi Hhi) as (Hwv & Hhv & Hkv & Hpe).
    unfold at_pos in H. destruct (contains_pos kr p) eqn:Ek.
    - injection H as <-. destruct k as [nm|pe|]; try apply hover_ok_nil.
      destruct interp; [|apply hover_ok_nil]. destruct (Hpe pe eq_refl eq_refl) as (A & B & C). apply Hrec; assumption.
    - destruct (contains_pos (se_rng v) p) eqn:Ev.
      + injection H as <-. apply orec_ok; assumption.
      + apply IH; assumption.
  Qed.

  Lemma map_hover_ok elem interp e : wf_s e -> wfh e -> contains_pos (se_rng e) p = true -> hover_ok p (map_hover p rec elem interp e).
  Proof.
    intros Hw Hh Hc. open_h e Hw Hh r vt n Hn Hhn. unfold map_hover. cbn [se_node se_rng].
    destruct n; try apply hover_ok_nil. inversion Hn; subst. inversion Hhn; subst.
    destruct (map_walk p rec elem interp items) as [h|] eqn:Em; [|apply hover_ok_ret; exact Hc].
    eapply map_walk_ok; eassumption.
  Qed.

  Lemma object_walk_ok r ats interp items h :
    Forall (wf_item r) items -> Forall wfh_item items -> object_walk p rec ats interp items = Some h -> hover_ok p h.
  Proof.
    intros HF HH. induction items as [|i l IH]; intros H; cbn [object_walk] in H; [discriminate|].
    inversion HF as [|? ? Hwi HFl]; subst. inversion HH as [|? ? Hhi HHl]; subst.
    destruct i as [kr k v]. destruct (item_facts _ _ _ _ Hwi Hhi) as (Hwv & Hhv & Hkv & Hpe).
    unfold at_pos in H. destruct (contains_pos kr p) eqn:Ek.
    - destruct k as [nm|pe|].
      + destruct (alookup nm ats) as [c|].
        * injection H as <-. apply hover_ok_ret. apply Hkv. reflexivity.
        * apply IH; assumption.
      + destruct interp.
        * injection H as <-. destruct (Hpe pe eq_refl eq_refl) as (A & B & C). apply Hrec; assumption.
        * apply IH; assumption.
      + apply IH; assumption.
    - destruct (match k with SKRaw name => alookup name ats | _ => None end) as [c|].
      + destruct (contains_pos (se_rng v) p) eqn:Ev.
        * injection H as <-. apply Hrec; assumption.
        * apply IH; assumption.
      + apply IH; assumption.
  Qed.

  Lemma object_hover_ok ats interp e : wf_s e -> wfh e -> contains_pos (se_rng e) p = true -> hover_ok p (object_hover p rec ats interp e).
  Proof.
    intros Hw Hh Hc. open_h e Hw Hh r vt n Hn Hhn. unfold object_hover. cbn [se_node se_rng].
    destruct n; try apply hover_ok_nil. inversion Hn; subst. inversion Hhn; subst.
    destruct (object_walk p rec ats interp items) as [h|] eqn:Em; [|apply hover_ok_ret; exact Hc].
    eapply object_walk_ok; eassumption.
  Qed.

  Lemma by_type_ok lit typ e : wf_s e -> wfh e -> contains_pos (se_rng e) p = true -> hover_ok p (by_type_hover p rec lit typ e).
  Proof.
    intros Hw Hh Hc. unfold by_type_hover. destruct typ; try apply hover_ok_nil; destruct (se_node e) eqn:En; try apply hover_ok_nil.
    - apply list_hover_ok; assumption.
    - apply list_hover_ok; assumption.
    - apply map_hover_ok; assumption.
    - apply tuple_hover_ok; assumption.
    - apply object_hover_ok; assumption.
  Qed.

  Lemma literal_type_ok t e : wf_s e -> wfh e -> contains_pos (se_rng e) p = true -> hover_ok p (literal_type_hover p rec t e).
  Proof.
    intros Hw Hh Hc. unfold literal_type_hover.
    set (typ := if is_dyn t then match se_vt e with Some t' => t' | None => t end else t).
    assert (Hprim : hover_ok p (if is_prim typ
                                then match se_node e with NLit lt => if lit_convertible lt typ then hret (se_rng e) else hnil | _ => hnil end
                                else by_type_hover p rec true typ e)).
    { destruct (is_prim typ); [|apply by_type_ok; assumption].
      destruct (se_node e); try apply hover_ok_nil. destruct (lit_convertible t0 typ); [apply hover_ok_ret; exact Hc|apply hover_ok_nil]. }
    destruct typ; try exact Hprim. destruct (se_node e); try exact Hprim.
    destruct (lit || all_string_parts parts); [apply hover_ok_ret; exact Hc|exact Hprim].
  Qed.

  Lemma literal_value_ok cv t e : wf_s e -> wfh e -> contains_pos (se_rng e) p = true -> hover_ok p (literal_value_hover vals p rec cv t e).
  Proof.
    intros Hw Hh Hc. unfold literal_value_hover. destruct t; try apply hover_ok_nil.
    - destruct (se_node e); try apply hover_ok_nil. destruct (value_of vals e); [|apply hover_ok_nil].
      destruct (sexp_eqb cv s); [apply hover_ok_ret; exact Hc|apply hover_ok_nil].
    - destruct (se_node e); try apply hover_ok_nil. destruct (value_of vals e); [|apply hover_ok_nil].
      destruct (sexp_eqb cv s); [apply hover_ok_ret; exact Hc|apply hover_ok_nil].
    - destruct (se_node e); try apply hover_ok_nil. destruct (value_of vals e); [|apply hover_ok_nil].
      destruct (sexp_eqb cv s && (lit || all_string_parts parts)); [apply hover_ok_ret; exact Hc|apply hover_ok_nil].
    - (* list *)
      destruct (se_node e) eqn:En; try apply hover_ok_nil.
      match goal with |- hover_ok p (match ?G with Some h => h | None => _ end) => destruct G as [h|] eqn:Eg end;
        [|apply list_hover_ok; assumption].
      open_h e Hw Hh r vt n Hn Hhn. subst n. inversion Hn as [| | | |? ? HF| | | | | | | | |]; subst. inversion Hhn as [| | | |? HH| | | | | | | | |]; subst.
      clear Hn Hhn Hw Hh Hc. revert h Eg. generalize (val_elems cv).
      induction elems as [|x l IH]; intros vs h Eg; [destruct vs; discriminate|].
      inversion HF as [|? ? (Hi & Hwx) HFl]; subst. inversion HH as [|? ? Hhx HHl]; subst.
      destruct vs as [|v vs']; simpl in Eg; [injection Eg as <-; apply hover_ok_nil|].
      unfold at_pos in Eg. destruct (contains_pos (se_rng x) p) eqn:Ex.
      + destruct (value_of vals x).
        * injection Eg as <-. destruct (sexp_eqb v s); [apply Hrec; assumption|apply hover_ok_nil].
        * apply (IH HFl HHl vs'). exact Eg.
      + apply (IH HFl HHl vs'). exact Eg.
    - (* set *)
      destruct (se_node e) eqn:En; try apply hover_ok_nil.
      match goal with |- hover_ok p (match ?G with Some h => h | None => _ end) => destruct G as [h|] eqn:Eg end;
        [|apply list_hover_ok; assumption].
      open_h e Hw Hh r vt n Hn Hhn. subst n. inversion Hn as [| | | |? ? HF| | | | | | | | |]; subst. inversion Hhn as [| | | |? HH| | | | | | | | |]; subst.
      clear Hn Hhn Hw Hh Hc. revert h Eg. generalize (length (val_elems cv)).
      induction elems as [|x l IH]; intros m h Eg; [destruct m; discriminate|].
      inversion HF as [|? ? (Hi & Hwx) HFl]; subst. inversion HH as [|? ? Hhx HHl]; subst.
      destruct m as [|m']; simpl in Eg; [injection Eg as <-; apply hover_ok_nil|].
      unfold at_pos in Eg. destruct (contains_pos (se_rng x) p) eqn:Ex.
      + destruct (value_of vals x).
        * injection Eg as <-. destruct (ty_eqb t (val_type s) && existsb (sexp_eqb s) (val_elems cv)); [apply Hrec; assumption|apply hover_ok_nil].
        * apply (IH HFl HHl m'). exact Eg.
      + apply (IH HFl HHl m'). exact Eg.
    - (* map *)
      destruct (se_node e) eqn:En; try apply hover_ok_nil.
      match goal with |- hover_ok p (match ?G with Some h => h | None => _ end) => destruct G as [h|] eqn:Eg end;
        [|apply map_hover_ok; assumption].
      open_h e Hw Hh r vt n Hn Hhn. subst n. inversion Hn as [| | | | |? ? HF| | | | | | | |]; subst. inversion Hhn as [| | | | |? HH| | | | | | | |]; subst.
      clear Hn Hhn Hw Hh Hc. revert h Eg.
      induction items as [|i l IH]; intros h Eg; [discriminate|].
      inversion HF as [|? ? Hwi HFl]; subst. inversion HH as [|? ? Hhi HHl]; subst.
      destruct i as [kr k v]. destruct (item_facts _ _ _ _ Hwi Hhi) as (Hwv & Hhv & _ & _).
      destruct k as [kn|pe|]; simpl in Eg; try (injection Eg as <-; apply hover_ok_nil).
      destruct (alookup kn (val_entries cv)) as [mv|]; [|injection Eg as <-; apply hover_ok_nil].
      unfold at_pos in Eg. destruct (contains_pos (se_rng v) p) eqn:Ev.
      + destruct (value_of vals v).
        * injection Eg as <-. destruct (sexp_eqb mv s); [apply Hrec; assumption|apply hover_ok_nil].
        * apply (IH HFl HHl). exact Eg.
      + apply (IH HFl HHl). exact Eg.
    - destruct (se_node e) eqn:En; try apply hover_ok_nil. apply tuple_hover_ok; assumption.
    - destruct (se_node e) eqn:En; try apply hover_ok_nil. apply object_hover_ok; assumption.
  Qed.

  Lemma reference_ok e : contains_pos (se_rng e) p = true -> hover_ok p (reference_hover e).
  Proof.
    intros Hc. unfold reference_hover. destruct (se_node e); try apply hover_ok_nil.
    destruct resolved; [apply hover_ok_ret; exact Hc|apply hover_ok_nil].
  Qed.

  Lemma function_ok e : wf_s e -> wfh e -> contains_pos (se_rng e) p = true -> hover_ok p (function_hover funcs p rec e).
  Proof.
    intros Hw Hh Hc. open_h e Hw Hh r vt n Hn Hhn. unfold function_hover. cbn [se_node se_rng].
    destruct n; try apply hover_ok_nil.
    inversion Hn as [| | | | | | | | | | | |? ? ? ? Hnr HF|]; subst. inversion Hhn as [| | | | | | | | | | | |? ? ? HH|]; subst.
    destruct (alookup name funcs) as [[params varp]|]; [|apply hover_ok_nil].
    unfold at_pos. destruct (contains_pos name_rng p); [apply hover_ok_ret; exact Hc|].
    assert (Hgo : forall ps, hover_ok p
              ((fix go (ps : list ty) (l : list sexpr) : hres :=
                  match l with
                  | [] => hnil
                  | a :: r0 =>
                      match ps with
                      | p0 :: ps' => if contains_pos (se_rng a) p then rec (CAny p0 false) a else go ps' r0
                      | [] => match varp with
                              | Some vp => if contains_pos (se_rng a) p then rec (CAny vp false) a else go [] r0
                              | None => hnil
                              end
                      end
                  end) ps args)).
    { clear Hn Hhn Hw Hh. induction args as [|a l IH]; intros ps; [apply hover_ok_nil|].
      inversion HF as [|? ? (Hi & Hwa) HFl]; subst. inversion HH as [|? ? Hha HHl]; subst.
      destruct ps as [|p0 ps'].
      - destruct varp as [vp|]; [|apply hover_ok_nil].
        destruct (contains_pos (se_rng a) p) eqn:Ea; [apply Hrec; assumption|apply (IH HFl HHl)].
      - destruct (contains_pos (se_rng a) p) eqn:Ea; [apply Hrec; assumption|apply (IH HFl HHl)]. }
    destruct params as [|p0 ps0]; [destruct varp; [apply Hgo|apply hover_ok_nil]|apply Hgo].
  Qed.

  Lemma any_simple_ok t skip e : wf_s e -> wfh e -> contains_pos (se_rng e) p = true -> hover_ok p (any_simple_hover funcs p rec t skip e).
  Proof.
    intros Hw Hh Hc. unfold any_simple_hover.
    assert (Hfb : hover_ok p
              match reference_hover e with
              | Some (Some r) => hret r
              | None => None
              | Some None => match function_hover funcs p rec e with Some None => literal_type_hover p rec t e | x => x end
              end).
    { pose proof (reference_ok e Hc) as Hr. destruct (reference_hover e) as [[r|]|]; [apply hover_ok_ret; apply Hr; reflexivity| |apply hover_ok_none].
      pose proof (function_ok e Hw Hh Hc) as Hf. destruct (function_hover funcs p rec e) as [[r|]|]; [exact Hf| |apply hover_ok_none].
      apply literal_type_ok; assumption. }
    open_h e Hw Hh r vt n Hn Hhn. unfold at_pos.
    destruct n as [root steps res|t0|lit parts|w|elems|items|rt p1 p2 l0 r0|rt p0 x|x|c a b|coll key val cond|k|name nrng args|];
      try exact Hfb; inversion Hn; subst; inversion Hhn; subst.
    - (* template *)
      destruct lit; [exact Hfb|]. unfold first_at, at_pos.
      destruct (find _ parts) as [x|] eqn:Ef; [|apply hover_ok_nil]. destruct (find_at _ _ _ Ef) as (Hin & Hx).
      match goal with H : Forall (fun q => inside (se_rng q) r /\ wf_s q) parts |- _ => rewrite Forall_forall in H; destruct (H x Hin) end.
      match goal with H : Forall wfh parts |- _ => rewrite Forall_forall in H; specialize (H x Hin) end.
      apply Hrec; assumption.
    - destruct (contains_pos (se_rng w) p) eqn:E1; [apply Hrec; assumption|apply hover_ok_nil].
    - destruct (prim_conv rt t); [|apply hover_ok_nil].
      destruct (contains_pos (se_rng l0) p) eqn:E1; [apply Hrec; assumption|].
      destruct (contains_pos (se_rng r0) p) eqn:E2; [apply Hrec; assumption|apply hover_ok_nil].
    - destruct (prim_conv rt t); [|apply hover_ok_nil].
      destruct (contains_pos (se_rng x) p) eqn:E1; [apply Hrec; assumption|apply hover_ok_nil].
    - destruct (contains_pos (se_rng x) p) eqn:E1; [apply Hrec; assumption|exact Hfb].
    - destruct (contains_pos (se_rng c) p) eqn:E1; [apply Hrec; assumption|].
      destruct (contains_pos (se_rng a) p) eqn:E2; [apply Hrec; assumption|].
      destruct (contains_pos (se_rng b) p) eqn:E3; [apply Hrec; assumption|exact Hfb].
    - (* for *)
      destruct (is_iterable t); [|exact Hfb].
      destruct (contains_pos (se_rng coll) p) eqn:E1; [apply Hrec; assumption|].
      destruct key as [k|].
      + destruct (contains_pos (se_rng k) p) eqn:Ek.
        * destruct (iter_key_type t); [|exact Hfb].
          match goal with H : forall x, Some k = Some x -> inside (se_rng x) r /\ wf_s x |- _ => destruct (H k eq_refl) end.
          match goal with H : forall x, Some k = Some x -> wfh x |- _ => specialize (H k eq_refl) end.
          apply Hrec; assumption.
        * destruct (contains_pos (se_rng val) p) eqn:Ev.
          { destruct (iter_val_type t); [apply Hrec; assumption|exact Hfb]. }
          destruct cond as [cd|]; [|exact Hfb]. destruct (contains_pos (se_rng cd) p) eqn:Ecd; [|exact Hfb].
          match goal with H : forall x, Some cd = Some x -> inside (se_rng x) r /\ wf_s x |- _ => destruct (H cd eq_refl) end.
          match goal with H : forall x, Some cd = Some x -> wfh x |- _ => specialize (H cd eq_refl) end.
          apply Hrec; assumption.
      + destruct (contains_pos (se_rng val) p) eqn:Ev.
        { destruct (iter_val_type t); [apply Hrec; assumption|exact Hfb]. }
        destruct cond as [cd|]; [|exact Hfb]. destruct (contains_pos (se_rng cd) p) eqn:Ecd; [|exact Hfb].
        match goal with H : forall x, Some cd = Some x -> inside (se_rng x) r /\ wf_s x |- _ => destruct (H cd eq_refl) end.
        match goal with H : forall x, Some cd = Some x -> wfh x |- _ => specialize (H cd eq_refl) end.
        apply Hrec; assumption.
    - destruct (contains_pos (se_rng k) p) eqn:E1; [apply Hrec; assumption|exact Hfb].
  Qed.

  Lemma any_hover_ok t skip e : wf_s e -> wfh e -> contains_pos (se_rng e) p = true -> hover_ok p (any_hover funcs p rec t skip e).
  Proof.
    intros Hw Hh Hc. unfold any_hover. pose proof (any_simple_ok t skip e Hw Hh Hc) as Hs.
    destruct t; try exact Hs; destruct (se_node e) eqn:En; try exact Hs;
      try (apply by_type_ok; assumption). apply object_hover_ok; assumption.
  Qed.

  Lemma one_of_ok cs e : wf_s e -> wfh e -> contains_pos (se_rng e) p = true -> hover_ok p (one_of_hover rec cs e).
  Proof.
    intros Hw Hh Hc. induction cs as [|c r IH]; cbn [one_of_hover]; [apply hover_ok_nil|].
    pose proof (Hrec c e Hw Hh Hc) as Hx. destruct (rec c e) as [[x|]|]; [exact Hx|exact IH|apply hover_ok_none].
  Qed.

  Lemma type_decl_ok e : wf_s e -> wfh e -> contains_pos (se_rng e) p = true -> hover_ok p (type_decl_hover parens opens typeok p rec_type e).
  Proof.
    intros Hw Hh Hc. open_h e Hw Hh r vt n Hn Hhn. unfold type_decl_hover. cbn [se_node se_rng]. unfold at_pos.
    destruct n as [root steps res|t0|lit parts|w|elems|items|rt p1 p2 l0 r0|rt p0 x|x|c a b|coll key val cond|k|name nrng args|];
      try apply hover_ok_nil.
    - destruct steps as [|s0 [|s1 ss]]; try apply hover_ok_nil. rewrite Hc. apply hover_ok_ret; exact Hc.
    - inversion Hn as [| | | | | | | | | | | |? ? ? ? Hnr HF|]; subst. inversion Hhn as [| | | | | | | | | | | |? ? ? HH|]; subst.
      destruct (contains_pos nrng p) eqn:En; [destruct (type_ok typeok r); [apply hover_ok_ret; exact Hc|apply hover_ok_nil]|].
      destruct (lookup_range parens r) as [pr|]; [|apply hover_ok_nil].
      destruct (contains_pos pr p); [|apply hover_ok_nil].
      destruct (is_elem_type_name name).
      { destruct args as [|a0 [|a1 as1]]; try apply hover_ok_nil.
        inversion HF as [|? ? (Hi & Hwa) _]; subst. inversion HH as [|? ? Hha _]; subst.
        destruct (contains_pos (se_rng a0) p) eqn:Ea; [apply Hrec_type; assumption|apply hover_ok_nil]. }
      destruct (String.eqb name "object").
      { destruct args as [|a0 [|a1 as1]]; try apply hover_ok_nil.
        inversion HF as [|? ? (Hi & Hwa) _]; subst. inversion HH as [|? ? Hha _]; subst.
        destruct a0 as [ra va na]. inversion Hwa as [? ? ? Hna]; subst. inversion Hha as [? ? ? Hhna]; subst. cbn [se_node se_rng] in *.
        destruct na; try apply hover_ok_nil.
        destruct (contains_pos ra p) eqn:Ea; [|apply hover_ok_nil].
        destruct ((match lookup_range opens ra with Some o => contains_pos o p | None => false end) || contains_pos (close_range ra) p).
        { destruct (type_ok typeok r); [apply hover_ok_ret; exact Ea|apply hover_ok_nil]. }
        inversion Hna as [| | | | |? ? HFi| | | | | | | |]; subst. inversion Hhna as [| | | | |? HHi| | | | | | | |]; subst.
        clear Hna Hhna Hwa Hha HF HH Hn Hhn Hw Hh.
        induction items as [|i l IH]; [apply hover_ok_nil|].
        inversion HFi as [|? ? Hwi HFl]; subst. inversion HHi as [|? ? Hhi HHl]; subst.
        destruct i as [kr k v]. destruct (item_facts _ _ _ _ Hwi Hhi) as (Hwv & Hhv & Hkv & _).
        destruct (contains_pos kr p) eqn:Ek.
        - destruct k; try apply hover_ok_nil. apply hover_ok_ret. apply Hkv. reflexivity.
        - destruct (contains_pos (se_rng v) p) eqn:Ev; [apply Hrec_type; assumption|apply (IH HFl HHl)]. }
      destruct (String.eqb name "tuple"); [|apply hover_ok_nil].
      destruct args as [|a0 [|a1 as1]]; try apply hover_ok_nil.
      inversion HF as [|? ? (Hi & Hwa) _]; subst. inversion HH as [|? ? Hha _]; subst.
      destruct a0 as [ra va na]. inversion Hwa as [? ? ? Hna]; subst. inversion Hha as [? ? ? Hhna]; subst. cbn [se_node se_rng] in *.
      destruct na; try apply hover_ok_nil.
      destruct (contains_pos ra p) eqn:Ea; [|apply hover_ok_nil].
      destruct ((match lookup_range opens ra with Some o => contains_pos o p | None => false end) || contains_pos (close_range ra) p).
      { destruct (type_ok typeok r); [apply hover_ok_ret; exact Hc|apply hover_ok_nil]. }
      inversion Hna as [| | | |? ? HFe| | | | | | | | |]; subst. inversion Hhna as [| | | |? HHe| | | | | | | | |]; subst.
      unfold first_at, at_pos. destruct (find _ elems) as [x|] eqn:Ef; [|apply hover_ok_nil].
      destruct (find_at _ _ _ Ef) as (Hin & Hx). rewrite Forall_forall in HFe, HHe. destruct (HFe x Hin).
      apply Hrec_type; [assumption|apply HHe; exact Hin|exact Hx].
  Qed.

  Lemma step_hover_ok c e : wf_s e -> wfh e -> contains_pos (se_rng e) p = true ->
    hover_ok p (step_hover funcs vals parens opens typeok p rec rec_type c e).
  Proof.
    intros Hw Hh Hc. destruct c as [t s|t s|v t d|k n|s t n a| |el mn mx|el mn mx|es|el n i mn mx|ats nl n i|cs]; cbn [step_hover].
    - apply any_hover_ok; assumption.
    - apply literal_type_ok; assumption.
    - apply literal_value_ok; assumption.
    - destruct (se_node e); try apply hover_ok_nil. destruct steps as [|s0 [|s1 ss]]; try apply hover_ok_nil.
      destruct (String.eqb root k); [apply hover_ok_ret; exact Hc|apply hover_ok_nil].
    - apply reference_ok; exact Hc.
    - apply type_decl_ok; assumption.
    - apply list_hover_ok; assumption.
    - apply list_hover_ok; assumption.
    - apply tuple_hover_ok; assumption.
    - apply map_hover_ok; assumption.
    - apply object_hover_ok; assumption.
    - apply one_of_ok; assumption.
  Qed.
End StepOk.

Theorem type_hover_contains_cursor parens opens typeok p fuel : forall e,
  wf_s e -> wfh e -> contains_pos (se_rng e) p = true -> hover_ok p (type_hover parens opens typeok p fuel e).
Proof.
  induction fuel as [|n IH]; intros e Hw Hh Hc; [apply hover_ok_none|].
  cbn [type_hover]. apply type_decl_ok; assumption.
Qed.

(* the hover range of a value contains the cursor: every constraint, every expression shape, any depth *)
Theorem value_hover_contains_cursor funcs vals parens opens typeok p fuel : forall c e r,
  wf_s e -> wfh e -> contains_pos (se_rng e) p = true ->
  value_hover funcs vals parens opens typeok p fuel c e = Some (Some r) -> contains_pos r p = true.
Proof.
  induction fuel as [|n IH]; intros c e r Hw Hh Hc H; [discriminate|].
  cbn [value_hover] in H. eapply step_hover_ok; try eassumption.
  - intros c' e' Hw' Hh' Hc' r' E. eapply IH; eassumption.
  - apply type_hover_contains_cursor.
Qed.
