(* Completion inside attribute values (Model/ValueCands.v).

   (1) Every candidate the model yields - and every place it reserves for reference / function candidates -
       carries an edit range that starts at or before the cursor and reaches it (byte offsets), for every
       constraint, every expression shape, at any depth, whatever text surrounds the cursor.
       What the parser must deliver for that ([wfc]): a traversal's range covers at least its root name and
       starts where its root step starts, a boolean literal's range covers its text, an object item's key
       ends no later than its value.  The harness checks exactly this on every file it serialises.
   (2) Keyword candidates: each carries the keyword of a Keyword constraint that occurs in the attribute's
       constraint; at an empty value a Keyword constraint offers exactly its keyword. *)
From Coq Require Import String Ascii List ZArith Bool Lia.
From HV Require Import Base.Sexp Base.Str Base.SortSpec Base.Pos Model.Addr Model.DepKeys Model.Schema Model.Ast Model.Merge
                       Model.Ref Model.Collect Model.Origins Model.ValueTargets Model.BodyQueries Model.ValueTokens
                       Model.Completion Model.Snippet Model.ValueHover Model.ValueCands Gen.Consts.
Import ListNotations.
Open Scope list_scope.
Open Scope Z_scope.

Section Reach.
  Variable prefill : bool.
  Variable file : bytes.
  Variable opens : range_table.
  Variable empties : list range.
  Variable vals : list (range * sexp).
  Variable funcs : fsigs.
  Variable parens : range_table.
  Variable cparens : paren_table.
  Variable fname : string.
  Variable refs : string -> ty -> string -> range -> option (list string).
  Variable fns : string -> ty -> option (list FuncCands.fcand).
  Variable p : pos.
  (* a closing parenthesis is one byte (or missing) *)
  Hypothesis cparens_wf : forall r o c, lookup_parens cparens r = Some (o, c) -> re c <= rs c + 1.

  Notation PP := (p_byte p).

  Definition bool_text (b : bool) : string := if b then "true"%string else "false"%string.

  (* what completion relies on in the syntax tree *)
  Inductive wfc : sexpr -> Prop :=
  | WcS r vt n : wfc_node r n -> wfc (SE r vt n)
  with wfc_node : range -> snode -> Prop :=
  | CTrav r root steps res :
      rs r + Z.of_nat (String.length root) <= re r ->
      (forall rr rest, steps = TSRoot rr :: rest -> rs rr = rs r) ->
      wfc_node r (NTrav root steps res)
  | CLit r t :
      (forall v b, lookup_val vals r = Some v -> bool_of_val v = Some b -> rs r + Z.of_nat (String.length (bool_text b)) <= re r) ->
      wfc_node r (NLit t)
  | CTemplate r lit parts : Forall wfc parts -> wfc_node r (NTemplate lit parts)
  | CWrap r e : wfc e -> wfc_node r (NWrap e)
  | CTuple' r elems : Forall wfc elems -> wfc_node r (NTuple elems)
  | CObject' r items : Forall wfc_item items -> wfc_node r (NObject items)
  | CBinary r rt p1 p2 a b : wfc a -> wfc b -> wfc_node r (NBinary rt p1 p2 a b)
  | CUnary r rt p1 e : wfc e -> wfc_node r (NUnary rt p1 e)
  | CParens r e : wfc e -> wfc_node r (NParens e)
  | CCond r c a b : wfc c -> wfc a -> wfc b -> wfc_node r (NCond c a b)
  | CFor r coll k v c : wfc coll -> (forall x, k = Some x -> wfc x) -> wfc v -> (forall x, c = Some x -> wfc x) -> wfc_node r (NFor coll k v c)
  | CIndex r k : wfc k -> wfc_node r (NIndex k)
  | CCall r name nr args : rs r <= rs nr -> rs nr <= re nr -> re nr <= re r -> Forall wfc args -> wfc_node r (NCall name nr args)
  | COther r : wfc_node r NOther
  with wfc_item : sitem -> Prop :=
  | CItem kr k v : re kr <= re (se_rng v) -> wfc v -> (forall pe, k = SKParens pe -> wfc pe) -> wfc_item (SItem kr k v).

  Definition cexpr_wf (e : cexpr) : Prop := match e with CEmpty => True | CExpr x => wfc x end.

  Definition item_ok (i : vitem) : Prop := vi_sb i <= PP <= vi_eb i.
  Definition vres_ok (r : vres) : Prop := forall l, r = Some (Some l) -> Forall item_ok l.

  Lemma ok_nil : vres_ok vnil.
  Proof. intros l E. injection E as <-. constructor. Qed.
  Lemma ok_skip : vres_ok vskip.
  Proof. intros l E. discriminate. Qed.
  Lemma ok_none : vres_ok None.
  Proof. intros l E. discriminate. Qed.
  Lemma ok_ret l : Forall item_ok l -> vres_ok (vret l).
  Proof. intros H l' E. injection E as <-. exact H. Qed.
  Lemma ok_app a b : vres_ok a -> vres_ok b -> vres_ok (vapp a b).
  Proof.
    intros Ha Hb l E. destruct a as [[x|]|]; destruct b as [[y|]|]; cbn [vapp] in E; try discriminate.
    injection E as <-. apply Forall_app. split; [apply Ha|apply Hb]; reflexivity.
  Qed.

  Lemma at_cursor_ok k l n s t : item_ok (at_cursor p k l n s t).
  Proof. unfold item_ok, at_cursor, P, pb; cbn. lia. Qed.

  Lemma norm_wf x : wfc x -> cexpr_wf (norm empties x).
  Proof. intros H. unfold norm. destruct (is_empty_expr empties x); cbn; auto. Qed.

  Section Step.
    Variable rec : constraint -> cexpr -> vres.
    Hypothesis Hrec : forall c e, cexpr_wf e -> vres_ok (rec c e).
    Variable rec_td : cexpr -> vres.
    Hypothesis Hrec_td : forall e, cexpr_wf e -> vres_ok (rec_td e).

    Ltac open_c e Hw r vt n Hn := destruct e as [r vt n]; inversion Hw as [? ? ? Hn]; subst; cbn [se_rng se_node se_vt] in *.

    Lemma ecd_item_ok k l c : item_ok (ecd_item prefill p k l c).
    Proof. unfold ecd_item. destruct (ecd prefill 40 c 1 0); apply at_cursor_ok. Qed.

    Lemma keyword_ok kw e : cexpr_wf e -> vres_ok (keyword_cands p kw e).
    Proof.
      intros Hw. destruct e as [|x]; cbn [keyword_cands].
      - apply ok_ret. constructor; [apply at_cursor_ok|constructor].
      - cbn in Hw. open_c x Hw r vt n Hn. destruct n; try apply ok_nil.
        destruct steps as [|[rr| | | | |] [|]]; try apply ok_nil.
        inversion Hn as [? ? ? ? Hlen Hroot| | | | | | | | | | | | |]; subst.
        specialize (Hroot rr [] eq_refl).
        destruct (_ || _) eqn:Eg; [apply ok_nil|].
        apply orb_false_elim in Eg as (E1 & E2). apply Z.ltb_ge in E1. apply Z.ltb_ge in E2.
        destruct (bytes_prefix _ _); [|apply ok_nil].
        apply ok_ret. constructor; [|constructor]. unfold item_ok; cbn. unfold P, pb in *. lia.
    Qed.

    Lemma bool_items_ok af at' prefix sb eb : sb <= PP <= eb -> Forall item_ok (bool_items af at' prefix sb eb).
    Proof.
      intros H. unfold bool_items. apply Forall_app. split.
      - destruct (_ && _); constructor; [exact H|constructor].
      - destruct (_ && _); constructor; [exact H|constructor].
    Qed.

    Lemma complete_bool_ok af at' x : wfc x -> vres_ok (complete_bool vals p af at' x).
    Proof.
      intros Hw. open_c x Hw r vt n Hn. unfold complete_bool. cbn [se_node se_rng].
      destruct n; try apply ok_nil.
      - inversion Hn as [? ? ? ? Hlen Hroot| | | | | | | | | | | | |]; subst.
        destruct (_ || _) eqn:Eg; [apply ok_nil|].
        apply orb_false_elim in Eg as (E1 & E2). apply Z.ltb_ge in E1. apply Z.ltb_ge in E2.
        apply ok_ret. apply bool_items_ok. unfold P, pb in *. lia.
      - destruct t; try apply ok_nil.
        inversion Hn as [|? ? Hb| | | | | | | | | | | |]; subst.
        unfold bool_value, value_of. cbn [se_rng].
        destruct (lookup_val vals r) as [v|] eqn:Ev; [|apply ok_skip].
        destruct (bool_of_val v) as [b|] eqn:Eb; [|apply ok_skip].
        specialize (Hb v b eq_refl Eb).
        destruct (_ || _) eqn:Eg; [apply ok_nil|].
        apply orb_false_elim in Eg as (E1 & E2). apply Z.ltb_ge in E1. apply Z.ltb_ge in E2.
        apply ok_ret. apply bool_items_ok. unfold P, pb, bool_text in *. destruct b; cbn in *; lia.
    Qed.

    Ltac side := cbn [cexpr_wf]; first [exact I | assumption | apply norm_wf; assumption].
    Ltac vok :=
      repeat first
        [ assumption | apply ok_nil | apply ok_skip | apply ok_none
        | apply ok_app
        | apply Hrec; side
        | match goal with |- vres_ok (match ?x with _ => _ end) => destruct x eqn:? end
        | match goal with |- vres_ok (if ?b then _ else _) => destruct b eqn:? end ].

    Lemma literal_type_ok t skip e : cexpr_wf e -> vres_ok (literal_type_cands vals p rec t skip e).
    Proof.
      intros Hw. destruct e as [|x]; cbn [literal_type_cands].
      - destruct (is_primitive t).
        + destruct t; try apply ok_nil. apply ok_ret. apply bool_items_ok. unfold P, pb. lia.
        + destruct (is_dyn t); [apply ok_nil|]. destruct skip; [apply ok_nil|].
          apply ok_ret. constructor; [apply at_cursor_ok|constructor].
      - cbn in Hw. destruct t; try (apply complete_bool_ok; exact Hw); vok.
    Qed.

    Lemma literal_value_ok v t e : cexpr_wf e -> vres_ok (literal_value_cands vals p v t e).
    Proof.
      intros Hw. destruct e as [|x]; cbn [literal_value_cands].
      - apply ok_ret. constructor; [apply at_cursor_ok|constructor].
      - cbn in Hw.
        assert (Hgen : vres_ok (vret [VC (kind_for_type t) None None None None
                   (if Z.ltb (P p) (rs (se_rng x)) then P p else rs (se_rng x))
                   (if Z.leb (rs (se_rng x)) (P p) && Z.ltb (P p) (if Z.eqb (p_line (r_end (se_rng x))) (p_line p) then re (se_rng x) else P p)
                    then (if Z.eqb (p_line (r_end (se_rng x))) (p_line p) then re (se_rng x) else P p) else P p)])).
        { apply ok_ret. constructor; [|constructor]. unfold item_ok; cbn [vi_sb vi_eb]. unfold P, pb.
          destruct (Z.ltb_spec (p_byte p) (rs (se_rng x))); destruct (Z.eqb _ _);
            repeat match goal with |- context [Z.leb ?a ?b] => destruct (Z.leb_spec a b) end;
            repeat match goal with |- context [Z.ltb ?a ?b] => destruct (Z.ltb_spec a b) end; cbn [andb]; lia. }
        destruct t; try exact Hgen.
        destruct (bool_of_val v); [apply complete_bool_ok; exact Hw|apply ok_skip].
    Qed.

    Lemma one_of_ok cs e : cexpr_wf e -> vres_ok (one_of_cands rec cs e).
    Proof. intros Hw. induction cs as [|c r IH]; cbn [one_of_cands]; [apply ok_nil|]. apply ok_app; [apply Hrec; exact Hw|exact IH]. Qed.

    Lemma elem_at_wf elems y : Forall wfc elems -> elem_at file empties p elems = Some y -> wfc y.
    Proof.
      induction elems as [|x r IH]; intros HF H; cbn [elem_at] in H; [discriminate|].
      inversion HF as [|? ? Hx Hr]; subst.
      destruct (is_empty_expr empties x); [discriminate|].
      destruct (Z.ltb _ _); [discriminate|].
      destruct (at_or_end _ _); [injection H as <-; exact Hx|].
      destruct (dot_behind _ _ _); [injection H as <-; exact Hx|]. apply IH; assumption.
    Qed.

    Lemma list_ok k self elem e : cexpr_wf e -> vres_ok (list_cands prefill file opens empties p rec k self elem e).
    Proof.
      intros Hw. destruct e as [|x]; cbn [list_cands].
      - apply ok_ret. constructor; [apply ecd_item_ok|constructor].
      - cbn in Hw. open_c x Hw r vt n Hn. destruct n; try apply ok_nil. destruct elem as [ec|]; [|apply ok_nil].
        inversion Hn; subst.
        destruct (inside _ _); [|apply ok_nil].
        destruct elems as [|e0 es]; [apply Hrec; exact I|].
        destruct (elem_at file empties p (e0 :: es)) as [y|] eqn:Ey; [|apply Hrec; exact I].
        apply Hrec. cbn. eapply elem_at_wf; eassumption.
    Qed.

    Lemma tuple_at_wf elems : forall i cs le li y c, Forall wfc elems -> tuple_at file empties p i elems cs le li = TFound y c -> wfc y.
    Proof.
      induction elems as [|x r IH]; intros i cs le li y c HF H; cbn [tuple_at] in H; [discriminate|].
      destruct cs as [|c0 cr]; [discriminate|]. inversion HF as [|? ? Hx Hr]; subst.
      destruct (is_empty_expr empties x); [discriminate|].
      destruct (Z.ltb _ _); [discriminate|].
      destruct (at_or_end _ _); [injection H as <- _; exact Hx|].
      destruct (dot_behind _ _ _); [injection H as <- _; exact Hx|]. eapply IH; eassumption.
    Qed.

    Lemma tuple_ok self cs e : cexpr_wf e -> vres_ok (tuple_cands prefill file opens empties p rec self cs e).
    Proof.
      intros Hw. destruct e as [|x]; cbn [tuple_cands].
      - apply ok_ret. constructor; [apply ecd_item_ok|constructor].
      - cbn in Hw. open_c x Hw r vt n Hn. destruct n; try apply ok_nil. inversion Hn; subst.
        destruct cs as [|c0 cr]; [apply ok_nil|].
        destruct (negb _); [apply ok_nil|].
        destruct elems as [|e0 es]; [apply Hrec; exact I|].
        destruct (Nat.ltb _ _); [apply ok_nil|].
        destruct (tuple_at _ _ _ _ _ _ _ _) as [y c|le li] eqn:Et.
        + apply Hrec. cbn. eapply tuple_at_wf; eassumption.
        + vok.
    Qed.

    Lemma map_items_ok elem interp items : Forall wfc_item items -> forall rcv,
      match map_items empties p rec elem interp items rcv with IReturn r => vres_ok r | IFall _ => True end.
    Proof.
      induction items as [|it r IH]; intros HF rcv; cbn [map_items]; [exact I|].
      inversion HF as [|? ? Hi Hr]; subst. destruct it as [kr k v]. inversion Hi as [? ? ? Hke Hv Hpe]; subst.
      destruct (_ && _); [apply ok_nil|].
      destruct (Z.ltb _ _); [exact I|].
      destruct (contains_pos kr p).
      - destruct k as [nm|pe|]; cbn [key_parens]; try apply ok_nil.
        destruct interp; [|apply ok_nil]. apply Hrec. apply norm_wf. apply Hpe. reflexivity.
      - destruct (at_or_end _ _); [apply Hrec; apply norm_wf; exact Hv|]. apply IH. exact Hr.
    Qed.

    Lemma map_ok self elem interp e : cexpr_wf e -> vres_ok (map_cands prefill file opens empties p rec self elem interp e).
    Proof.
      intros Hw. destruct e as [|x]; cbn [map_cands].
      - apply ok_ret. constructor; [apply ecd_item_ok|constructor].
      - cbn in Hw. open_c x Hw r vt n Hn. destruct n; try apply ok_nil.
        inversion Hn as [| | | | |? ? Hitems| | | | | | | |]; subst.
        destruct (negb _); [apply ok_nil|]. destruct elem as [ec|]; [|apply ok_nil].
        cbv zeta.
        set (ic := match ecd prefill 40 ec 2 0 with Some d => _ | None => _ end).
        assert (Hic : item_ok ic) by (subst ic; destruct (ecd prefill 40 ec 2 0); apply at_cursor_ok).
        assert (Hone : vres_ok (vret [ic])) by (apply ok_ret; constructor; [exact Hic|constructor]).
        assert (Hnil : Forall wfc_item []) by constructor.
        destruct items as [|it its].
        + destruct (trim_space _ _); [exact Hone|].
          destruct (last_is _ _); [apply Hrec; exact I|].
          match goal with |- context [map_items ?a ?b ?c ?d ?e ?f ?g] =>
            pose proof (map_items_ok d e f Hnil g) as Hm; destruct (map_items a b c d e f g); [exact Hm|vok; exact Hone] end.
        + match goal with |- context [map_items ?a ?b ?c ?d ?e ?f ?g] =>
            pose proof (map_items_ok d e f Hitems g) as Hm; destruct (map_items a b c d e f g); [exact Hm|vok; exact Hone] end.
    Qed.

    Lemma attrs_to_cands_ok prefix ats d er : fst er <= PP <= snd er -> Forall item_ok (attrs_to_cands prefill prefix ats d er).
    Proof.
      intros H. unfold attrs_to_cands. apply Forall_flat_map. apply Forall_forall. intros [name a] _.
      destruct (negb _); [constructor|].
      destruct (decl_get d name).
      - destruct (negb _); [constructor|]. destruct (ecd prefill 40 (as_cons a) 1 0); (constructor; [exact H|constructor]).
      - destruct (ecd prefill 40 (as_cons a) 1 0); (constructor; [exact H|constructor]).
    Qed.

    Lemma object_items_ok ats interp items : Forall wfc_item items -> forall st,
      match object_items prefill file empties p rec ats interp items st with OReturn r => vres_ok r | OFall _ => True end.
    Proof.
      induction items as [|it r IH]; intros HF st; cbn [object_items]; [exact I|].
      inversion HF as [|? ? Hi Hr]; subst. destruct it as [kr k v]. inversion Hi as [? ? ? Hke Hv Hpe]; subst.
      destruct (_ && _); [apply ok_nil|].
      destruct (os_next st); [apply IH; exact Hr|].
      destruct (Z.ltb _ _); [apply IH; exact Hr|].
      destruct (contains_pos kr p) eqn:Ec.
      - destruct k as [nm|pe|]; cbn [key_parens].
        + apply ok_ret. apply attrs_to_cands_ok. cbn [fst snd].
          unfold contains_pos, contains_offset in Ec. apply andb_prop in Ec as (E1 & E2). apply Z.leb_le in E1. apply Z.ltb_lt in E2.
          unfold rs, re in *. lia.
        + destruct interp; [|apply ok_nil]. apply Hrec. apply norm_wf. apply Hpe. reflexivity.
        + apply ok_nil.
      - destruct (at_or_end _ _); [|apply IH; exact Hr].
        destruct k as [nm|pe|]; destruct (alookup _ ats); try apply ok_nil; apply Hrec; apply norm_wf; exact Hv.
    Qed.

    Lemma object_ok self ats interp e : cexpr_wf e -> vres_ok (object_cands prefill file opens empties p rec self ats interp e).
    Proof.
      intros Hw. destruct e as [|x]; cbn [object_cands].
      - apply ok_ret. constructor; [apply ecd_item_ok|constructor].
      - cbn in Hw. open_c x Hw r vt n Hn. destruct n; try apply ok_nil. inversion Hn; subst.
        destruct (negb _); [apply ok_nil|]. destruct ats as [|a0 ats']; [apply ok_nil|].
        match goal with |- context [object_items ?a ?b ?c ?d ?e ?f ?g ?h ?i] => pose proof (object_items_ok f g h H1 i) as Hm; destruct (object_items a b c d e f g h i) as [r0|st] end.
        + exact Hm.
        + destruct (trim_right_set _ _) as [|b0 bs] eqn:Et; [apply ok_nil|].
          match goal with |- vres_ok (match ?single with Some a1 => _ | None => _ end) => destruct single as [a1|] end.
          * vok. apply ok_ret. apply attrs_to_cands_ok. cbn. unfold P, pb. lia.
          * vok. apply ok_ret. apply attrs_to_cands_ok. cbn [fst snd]. unfold P, pb. lia.
    Qed.

    Lemma ref_cands_ok sc0 t0 prefix org flt : rs org <= PP <= re org -> Forall item_ok (ref_cands refs sc0 t0 prefix org flt).
    Proof.
      intros H. unfold ref_cands. destruct (refs sc0 t0 prefix org) as [labels|]; [|constructor; [exact H|constructor]].
      apply Forall_forall. intros i Hi. apply in_map_iff in Hi as (l & <- & _). exact H.
    Qed.

    Lemma ref_items_ok sc0 t0 e : vres_ok (ref_items file fname refs p sc0 t0 e).
    Proof.
      destruct e as [|x]; cbn [ref_items].
      - apply ok_ret. apply ref_cands_ok. unfold empty_range_at, rs, re, P, pb; cbn. lia.
      - destruct (se_node x); try apply ok_nil; try apply ok_skip.
        apply ok_ret. apply ref_cands_ok.
        unfold edit_range, with_end, with_start, contains_pos, contains_offset, rs, re.
        destruct (Z.leb_spec (p_byte (r_start (se_rng x))) (p_byte p)); destruct (Z.ltb_spec (p_byte p) (p_byte (r_end (se_rng x)))); cbn [andb r_start r_end];
          repeat match goal with |- context [Z.ltb ?a ?b] => destruct (Z.ltb_spec a b) end; cbn [r_start r_end p_byte]; lia.
    Qed.

    Lemma fn_cands_ok t0 prefix sb eb : sb <= PP <= eb -> Forall item_ok (fn_cands fns t0 prefix sb eb).
    Proof.
      intros H. unfold fn_cands. destruct (fns prefix t0) as [l|]; [|constructor; [exact H|constructor]].
      apply Forall_forall. intros i Hi. apply in_map_iff in Hi as (c & <- & _). exact H.
    Qed.

    Lemma fn_items_ok t0 e : cexpr_wf e -> vres_ok (fn_items fns p t0 e).
    Proof.
      intros Hw. destruct e as [|x]; cbn [fn_items].
      - apply ok_ret. apply fn_cands_ok. unfold P, pb; lia.
      - cbn in Hw. open_c x Hw r vt n Hn. destruct n; try apply ok_nil; try apply ok_skip.
        destruct steps as [|[rr| | | | |] [|]]; try apply ok_nil.
        inversion Hn as [? ? ? ? Hlen Hroot| | | | | | | | | | | | |]; subst.
        specialize (Hroot rr [] eq_refl).
        destruct (_ || _) eqn:Eg; [apply ok_nil|].
        apply orb_false_elim in Eg as (E1 & E2). apply Z.ltb_ge in E1. apply Z.ltb_ge in E2.
        apply ok_ret. apply fn_cands_ok. unfold P, pb in *. lia.
    Qed.

    Lemma index_ok e : cexpr_wf e -> vres_ok (index_cands empties rec e).
    Proof.
      intros Hw. destruct e as [|x]; cbn [index_cands]; [apply ok_nil|].
      cbn in Hw. open_c x Hw r vt n Hn. destruct n; try apply ok_nil.
      - vok.
      - inversion Hn; subst. apply Hrec. apply norm_wf. assumption.
    Qed.

    Lemma leaf_ok t skip e : cexpr_wf e -> vres_ok (leaf_cands file empties vals fname refs fns p rec t skip e).
    Proof.
      intros Hw. unfold leaf_cands. apply ok_app; [apply ref_items_ok|]. apply ok_app; [apply fn_items_ok; exact Hw|].
      apply ok_app; [apply literal_type_ok; exact Hw|apply index_ok; exact Hw].
    Qed.

    Lemma parts_at_wf parts y : Forall wfc parts -> parts_at file p parts = Some y -> wfc y.
    Proof.
      induction parts as [|x r IH]; intros HF H; cbn [parts_at] in H; [discriminate|].
      inversion HF as [|? ? Hx Hr]; subst.
      destruct (Z.ltb _ _); [discriminate|].
      destruct (at_or_end _ _); [injection H as <-; exact Hx|].
      destruct (dot_behind _ _ _); [injection H as <-; exact Hx|]. apply IH; assumption.
    Qed.

    Lemma arg_at_wf args : forall i last le li a j, Forall wfc args -> arg_at p i args last le li = AFound a j -> wfc a.
    Proof.
      induction args as [|x r IH]; intros i last le li a j HF H; cbn [arg_at] in H; [discriminate|].
      inversion HF as [|? ? Hx Hr]; subst.
      destruct (Z.ltb _ _); [discriminate|].
      destruct (at_or_end _ _); [injection H as <- _; exact Hx|]. eapply IH; eassumption.
    Qed.

    Lemma arg_at_last_wf args : forall i last le li l2 le2 li2, Forall wfc args -> (forall b, last = Some b -> wfc b) ->
      arg_at p i args last le li = ADone l2 le2 li2 -> forall a, l2 = Some a -> wfc a.
    Proof.
      induction args as [|x r IH]; intros i last le li l2 le2 li2 HF Hl H; cbn [arg_at] in H.
      - injection H as <- _ _. exact Hl.
      - inversion HF as [|? ? Hx Hr]; subst.
        destruct (Z.ltb _ _); [injection H as <- _ _; exact Hl|].
        destruct (at_or_end _ _); [discriminate|].
        eapply IH; [exact Hr| |exact H]. intros b Eb. injection Eb as <-. exact Hx.
    Qed.

    Lemma call_ok t0 x : wfc x -> vres_ok (call_cands file empties funcs parens fns p rec t0 x).
    Proof.
      intros Hw. open_c x Hw r vt n Hn. unfold call_cands. cbn [se_node se_rng]. destruct n; try apply ok_nil.
      inversion Hn as [| | | | | | | | | | | |? ? ? ? Hs Hne He Hargs|]; subst.
      destruct (contains_pos name_rng p) eqn:Ec.
      - apply ok_ret. apply fn_cands_ok.
        unfold contains_pos, contains_offset in Ec. apply andb_prop in Ec as (E1 & E2). apply Z.leb_le in E1. apply Z.ltb_lt in E2.
        unfold rs, re in *. lia.
      - destruct (alookup name funcs) as [[params varp]|]; [|apply ok_nil].
        destruct (lookup_range parens r) as [pr|]; [|apply ok_nil].
        destruct (negb _); [apply ok_nil|].
        assert (Hmain : vres_ok match arg_at p 0 args None (rs pr) 0 with
                                | AFound a i => match param_type params varp i with Some t => rec (CAny t false) (norm empties a) | None => vnil end
                                | ADone last last_end last_idx =>
                                    match param_type params varp (if String.eqb (string_of_bytes (trim_right_set is_blank_tab_nl (recover_left file (P p) (fun off b => (b_eq b "," || b_eq b "(") && Z.ltb last_end off)))) "," then S last_idx else last_idx) with
                                    | Some t => rec (CAny t false) (if String.eqb (string_of_bytes (trim_right_set is_blank_tab_nl (recover_left file (P p) (fun off b => (b_eq b "," || b_eq b "(") && Z.ltb last_end off)))) "," then CEmpty
                                                                    else match recover_left file (P p) (fun off b => (b_eq b "," || b_eq b "(") && Z.ltb last_end off), last with [], Some a => norm empties a | _, _ => CEmpty end)
                                    | None => vnil
                                    end
                                end).
        { destruct (arg_at p 0 args None (rs pr) 0) as [a i|last le li] eqn:Ea.
          - destruct (param_type params varp i); [|apply ok_nil]. apply Hrec. apply norm_wf. eapply arg_at_wf; eassumption.
          - destruct (param_type _ _ _); [|apply ok_nil]. apply Hrec.
            destruct (String.eqb _ _); [exact I|]. destruct (recover_left _ _ _); [|exact I].
            destruct last as [a|] eqn:El; [|exact I]. apply norm_wf.
            eapply arg_at_last_wf; [exact Hargs| |exact Ea|reflexivity]. intros b Eb. discriminate. }
        destruct params; [destruct varp; [exact Hmain|apply ok_nil]|exact Hmain].
    Qed.

    Lemma non_complex_ok t skip e : cexpr_wf e -> vres_ok (non_complex_cands file empties vals funcs parens fname refs fns p rec t skip e).
    Proof.
      intros Hw. destruct e as [|x]; cbn [non_complex_cands]; [apply leaf_ok; exact I|].
      pose proof (leaf_ok t skip (CExpr x) Hw) as Hleaf.
      cbn in Hw. destruct x as [r vt n]. inversion Hw as [? ? ? Hn]; subst. cbn [se_node se_rng] in *.
      destruct n; try exact Hleaf; try apply ok_skip; try (apply call_ok; exact Hw); inversion Hn; subst.
      - destruct lit; [apply ok_nil|].
        destruct (parts_at file p parts) as [y|] eqn:Ep; [|apply ok_nil].
        apply ok_app; [apply Hrec; apply norm_wf; eapply parts_at_wf; eassumption|exact Hleaf].
      - vok; exact Hleaf.
      - vok; exact Hleaf.
      - vok; exact Hleaf.
      - vok; exact Hleaf.
      - vok; exact Hleaf.
      - destruct (negb _); [exact Hleaf|].
        destruct (at_or_end (se_rng coll) p); [apply ok_app; [apply Hrec; apply norm_wf; assumption|exact Hleaf]|].
        destruct key as [k0|].
        + destruct (at_or_end (se_rng k0) p).
          * destruct (iter_key_type t); [apply ok_app; [apply Hrec; apply norm_wf; auto|exact Hleaf]|exact Hleaf].
          * destruct (at_or_end (se_rng val) p).
            -- destruct (iter_val_type t); [apply ok_app; [apply Hrec; apply norm_wf; assumption|exact Hleaf]|exact Hleaf].
            -- destruct cond as [c0|]; [|apply ok_nil]. destruct (at_or_end (se_rng c0) p); [|apply ok_nil].
               apply ok_app; [apply Hrec; apply norm_wf; auto|exact Hleaf].
        + destruct (at_or_end (se_rng val) p).
          * destruct (iter_val_type t); [apply ok_app; [apply Hrec; apply norm_wf; assumption|exact Hleaf]|exact Hleaf].
          * destruct cond as [c0|]; [|apply ok_nil]. destruct (at_or_end (se_rng c0) p); [|apply ok_nil].
            apply ok_app; [apply Hrec; apply norm_wf; auto|exact Hleaf].
    Qed.

    Lemma any_ok t skip e : cexpr_wf e -> vres_ok (any_cands file empties vals funcs parens fname refs fns p rec t skip e).
    Proof.
      intros Hw. unfold any_cands. destruct skip; [apply non_complex_ok; exact Hw|].
      destruct e as [|x]; [apply non_complex_ok; exact Hw|].
      pose proof (non_complex_ok t false (CExpr x) Hw) as Hnc.
      destruct t; try exact Hnc; destruct (se_node x); try exact Hnc; try (apply Hrec; exact Hw).
    Qed.

    Lemma step_ok c e : cexpr_wf e -> vres_ok (step_cands prefill file opens empties vals funcs parens fname refs fns p rec rec_td c e).
    Proof.
      intros Hw. destruct c; cbn [step_cands].
      - apply any_ok; exact Hw.
      - apply literal_type_ok; exact Hw.
      - apply literal_value_ok; exact Hw.
      - apply keyword_ok; exact Hw.
      - destruct addr_scope; [apply ok_nil|apply ref_items_ok].
      - apply Hrec_td; exact Hw.
      - apply list_ok; exact Hw.
      - apply list_ok; exact Hw.
      - apply tuple_ok; exact Hw.
      - apply map_ok; exact Hw.
      - apply object_ok; exact Hw.
      - apply one_of_ok; exact Hw.
    Qed.
  End Step.


  Lemma all_type_decls_ok prefix sb eb : sb <= PP <= eb -> Forall item_ok (all_type_decls prefix sb eb).
  Proof.
    intros H. unfold all_type_decls. repeat (apply Forall_app; split); destruct (bytes_prefix _ _); try (constructor; [exact H|constructor]); constructor.
  Qed.

  Lemma td_norm_wf x : wfc x -> cexpr_wf (td_norm empties x).
  Proof. intros H. unfold td_norm. destruct (se_node x); cbn; auto. destruct (existsb _ _); cbn; auto. Qed.

  Section StepTd.
    Variable rec_td : cexpr -> vres.
    Hypothesis Hrec_td : forall e, cexpr_wf e -> vres_ok (rec_td e).

    Ltac tdok :=
      repeat first
        [ assumption | apply ok_nil | apply ok_skip | apply ok_none
        | apply ok_ret; first [ apply all_type_decls_ok; unfold tP, pb; lia | constructor; [unfold item_ok, td_attr_item, td_item, tP, pb; cbn; lia|constructor] ]
        | match goal with |- vres_ok (match ?x with _ => _ end) => destruct x eqn:? end
        | match goal with |- vres_ok (if ?b then _ else _) => destruct b eqn:? end ].

    Lemma td_items_ok items : Forall wfc_item items -> forall rcv ll,
      match td_items empties p rec_td items rcv ll with DReturn r => vres_ok r | DFall _ _ _ => True end.
    Proof.
      induction items as [|[kr k v] r IH]; intros HF rcv ll; cbn [td_items]; [exact I|].
      inversion HF as [|? ? Hi Hr]; subst. inversion Hi as [? ? ? Hke Hv Hpe]; subst.
      destruct (_ && _); [apply ok_nil|]. destruct (Z.ltb _ _); [exact I|].
      destruct (contains_pos kr p); [apply ok_nil|].
      destruct (at_or_end _ _); [apply Hrec_td; apply td_norm_wf; exact Hv|apply IH; exact Hr].
    Qed.

    Lemma td_elem_at_wf elems y : Forall wfc elems -> td_elem_at p elems = Some y -> wfc y.
    Proof.
      induction elems as [|x r IH]; intros HF H; cbn [td_elem_at] in H; [discriminate|].
      inversion HF as [|? ? Hx Hr]; subst. destruct (at_or_end _ _); [injection H as <-; exact Hx|apply IH; assumption].
    Qed.

    Lemma object_td_ok o c args : re o <= PP <= rs c -> Forall wfc args -> vres_ok (object_td file opens empties p rec_td o c args).
    Proof.
      intros Hoc HF. unfold object_td. destruct args as [|a [|]]; try apply ok_nil.
      - apply ok_ret. constructor; [unfold item_ok, td_item; cbn; exact Hoc|constructor].
      - inversion HF as [|? ? Ha _]; subst. destruct a as [r vt n]. inversion Ha as [? ? ? Hn]; subst. cbn [se_node se_rng].
        destruct n; try apply ok_nil. inversion Hn as [| | | | |? ? Hitems| | | | | | | |]; subst.
        destruct (negb _); [apply ok_nil|]. cbv zeta.
        assert (Hnil : Forall wfc_item []) by constructor.
        destruct items as [|it its].
        + destruct (trim_space _ _); [tdok|]. destruct (last_is _ _); [tdok|].
          match goal with |- context [td_items ?a ?b ?c0 ?d ?e0 ?f] =>
            pose proof (td_items_ok d Hnil e0 f) as Hm; destruct (td_items a b c0 d e0 f); [exact Hm|tdok] end.
        + match goal with |- context [td_items ?a ?b ?c0 ?d ?e0 ?f] =>
            pose proof (td_items_ok d Hitems e0 f) as Hm; destruct (td_items a b c0 d e0 f); [exact Hm|tdok] end.
    Qed.

    Lemma tuple_td_ok o c args : re o <= PP <= rs c -> Forall wfc args -> vres_ok (tuple_td opens empties p rec_td o c args).
    Proof.
      intros Hoc HF. unfold tuple_td. destruct args as [|a [|]]; try apply ok_nil.
      - apply ok_ret. constructor; [unfold item_ok, td_item; cbn; exact Hoc|constructor].
      - inversion HF as [|? ? Ha _]; subst. destruct a as [r vt n]. inversion Ha as [? ? ? Hn]; subst. cbn [se_node se_rng].
        destruct n; try apply ok_nil. inversion Hn; subst.
        destruct (td_elem_at p elems) as [y|] eqn:Ey; [apply Hrec_td; apply td_norm_wf; eapply td_elem_at_wf; eassumption|].
        tdok.
    Qed.

    Lemma type_decl_ok e : cexpr_wf e -> vres_ok (type_decl_cands file opens empties cparens p rec_td e).
    Proof.
      intros Hw. destruct e as [|x]; cbn [type_decl_cands]; [tdok|].
      cbn in Hw. destruct x as [r vt n]. inversion Hw as [? ? ? Hn]; subst. cbn [se_node se_rng].
      destruct n; try apply ok_nil.
      - destruct steps as [|s0 [|]]; try apply ok_nil.
        inversion Hn as [? ? ? ? Hlen Hroot| | | | | | | | | | | | |]; subst.
        destruct (_ || _) eqn:Eg; [apply ok_nil|].
        apply orb_false_elim in Eg as (E1 & E2). apply Z.ltb_ge in E1. apply Z.ltb_ge in E2.
        apply ok_ret. apply all_type_decls_ok. unfold tP, pb in *. lia.
      - inversion Hn as [| | | | | | | | | | | |? ? ? ? Hs Hne He Hargs|]; subst.
        destruct (_ || _) eqn:Ec.
        + apply ok_ret. apply all_type_decls_ok.
          apply orb_prop in Ec as [Ec|Ec].
          * unfold contains_pos, contains_offset in Ec. apply andb_prop in Ec as (E1 & E2). apply Z.leb_le in E1. apply Z.ltb_lt in E2. unfold rs, re in *. lia.
          * apply Z.eqb_eq in Ec. unfold tP, pb, rs, re in *.
            (* the name's range is well formed only under the parser contract: its end is not before the call's start *)
            lia.
        + destruct (lookup_parens cparens r) as [[o c]|] eqn:El; [|apply ok_nil].
          destruct (_ && _) eqn:Ein; [|apply ok_nil].
          apply andb_prop in Ein as (E1 & E2). apply Z.leb_le in E1. apply Z.ltb_lt in E2.
          pose proof (cparens_wf _ _ _ El) as Hc.
          assert (Hoc : re o <= PP <= rs c) by (unfold tP, pb in *; lia).
          destruct (is_elem_type_name name).
          * destruct args as [|a [|]]; [| |apply ok_nil].
            -- apply ok_ret. apply all_type_decls_ok. exact Hoc.
            -- destruct (contains_pos (se_rng a) p); [|apply ok_nil]. apply Hrec_td. apply td_norm_wf. inversion Hargs; assumption.
          * destruct (String.eqb name "object"); [apply object_td_ok; assumption|].
            destruct (String.eqb name "tuple"); [apply tuple_td_ok; assumption|apply ok_nil].
    Qed.
  End StepTd.

  Lemma type_cands_ok fuel : forall e, cexpr_wf e -> vres_ok (type_cands file opens empties cparens p fuel e).
  Proof.
    induction fuel as [|n IH]; intros e Hw; cbn [type_cands]; [apply ok_none|]. apply type_decl_ok; [exact IH|exact Hw].
  Qed.

  (* every candidate and every place reserved for reference / function candidates reaches the cursor *)
  Theorem value_cands_reach_cursor fuel : forall c e, cexpr_wf e -> vres_ok (value_cands prefill file opens empties vals funcs parens cparens fname refs fns p fuel c e).
  Proof.
    induction fuel as [|n IH]; intros c e Hw; cbn [value_cands]; [apply ok_none|].
    apply step_ok; [exact IH|apply type_cands_ok|exact Hw].
  Qed.
End Reach.

(* ------------------------------------------------------------------------------------------------
   (2) Keyword candidates are admitted by the constraint: a candidate of kind "keyword" carries the keyword of
       a Keyword constraint occurring in the attribute's constraint (as list / set / map element, tuple position,
       object attribute or one-of alternative), and the typed text is a prefix of it.  Type-driven expansions
       (literal types, any-expressions, interpolated keys) never yield one. *)
Inductive has_kw : constraint -> string -> Prop :=
| HKw kw nm : has_kw (CKeyword kw nm) kw
| HKList e mn mx kw : has_kw e kw -> has_kw (CList (Some e) mn mx) kw
| HKSet e mn mx kw : has_kw e kw -> has_kw (CSet (Some e) mn mx) kw
| HKMap e nm ip mn mx kw : has_kw e kw -> has_kw (CMap (Some e) nm ip mn mx) kw
| HKTuple cs c kw : In c cs -> has_kw c kw -> has_kw (CTuple cs) kw
| HKOneOf cs c kw : In c cs -> has_kw c kw -> has_kw (COneOf cs) kw
| HKObject ats isnil nm ip n a kw : In (n, a) ats -> has_kw (as_cons a) kw -> has_kw (CObject ats isnil nm ip) kw.

Section Keywords.
  Variable prefill : bool.
  Variable file : bytes.
  Variable opens : range_table.
  Variable empties : list range.
  Variable vals : list (range * sexp).
  Variable funcs : fsigs.
  Variable parens : range_table.
  Variable cparens : paren_table.
  Variable fname : string.
  Variable refs : string -> ty -> string -> range -> option (list string).
  Variable fns : string -> ty -> option (list FuncCands.fcand).
  Variable p : pos.

  Definition kw_item (c : constraint) (i : vitem) : Prop :=
    vi_kind i = kKeyword -> exists kw, has_kw c kw /\ exists n s t sb eb, i = VC kKeyword (Some kw) n s t sb eb.
  Definition vres_kw (c : constraint) (r : vres) : Prop := forall l, r = Some (Some l) -> Forall (kw_item c) l.

  Lemma kw_nil c : vres_kw c vnil.
  Proof. intros l E. injection E as <-. constructor. Qed.
  Lemma kw_skip c : vres_kw c vskip.
  Proof. intros l E. discriminate. Qed.
  Lemma kw_none c : vres_kw c None.
  Proof. intros l E. discriminate. Qed.
  Lemma kw_ret c l : Forall (kw_item c) l -> vres_kw c (vret l).
  Proof. intros H l' E. injection E as <-. exact H. Qed.
  Lemma kw_app c a b : vres_kw c a -> vres_kw c b -> vres_kw c (vapp a b).
  Proof.
    intros Ha Hb l E. destruct a as [[x|]|]; destruct b as [[y|]|]; cbn [vapp] in E; try discriminate.
    injection E as <-. apply Forall_app. split; [apply Ha|apply Hb]; reflexivity.
  Qed.
  (* a constraint without keywords, used in place of one that has some (or none) *)
  Lemma kw_weaken c c' r : (forall kw, has_kw c' kw -> has_kw c kw) -> vres_kw c' r -> vres_kw c r.
  Proof.
    intros Hsub H l E. specialize (H l E). eapply Forall_impl; [|exact H].
    intros i Hi Hk. destruct (Hi Hk) as (kw & Hh & rest). exists kw. split; [apply Hsub; exact Hh|exact rest].
  Qed.

  Definition other_kind (i : vitem) : Prop := vi_kind i <> kKeyword.
  Lemma kw_other c l : Forall other_kind l -> Forall (kw_item c) l.
  Proof. intros H. eapply Forall_impl; [|exact H]. intros i Hi Hk. contradiction. Qed.

  Lemma no_kw_any t s kw : ~ has_kw (CAny t s) kw.
  Proof. intros H; inversion H. Qed.
  Lemma no_kw_lit t s kw : ~ has_kw (CLitType t s) kw.
  Proof. intros H; inversion H. Qed.

  Lemma no_kw_expand t c kw : expand_lit_type t = Some c -> ~ has_kw c kw.
  Proof.
    intros E H. destruct t; cbn in E; try discriminate; injection E as <-.
    - inversion H; subst. eapply no_kw_lit; eassumption.
    - inversion H; subst. eapply no_kw_lit; eassumption.
    - inversion H; subst. eapply no_kw_lit; eassumption.
    - inversion H as [| | | |? ? ? Hin Hk| |]; subst. apply in_map_iff in Hin as (t0 & <- & _). eapply no_kw_lit; eassumption.
    - inversion H as [| | | | | |? ? ? ? ? ? ? Hin Hk]; subst. apply in_map_iff in Hin as ([n0 [t0 o0]] & Ea & _).
      injection Ea as <- <-. cbn in Hk. eapply no_kw_lit; eassumption.
  Qed.

  Section StepK.
    Variable rec : constraint -> cexpr -> vres.
    Hypothesis Hrec : forall c e, vres_kw c (rec c e).
    Variable rec_td : cexpr -> vres.
    Hypothesis Hrec_td : forall c e, vres_kw c (rec_td e).

    Lemma rec_any c t s e : vres_kw c (rec (CAny t s) e).
    Proof. eapply kw_weaken; [|apply Hrec]. intros kw H. exfalso. eapply no_kw_any; eassumption. Qed.

    Lemma bool_items_other af at' pre sb eb : Forall other_kind (bool_items af at' pre sb eb).
    Proof.
      unfold bool_items. apply Forall_app. split; destruct (_ && _); repeat constructor; unfold other_kind; cbn; discriminate.
    Qed.

    Lemma complete_bool_kw c af at' x : vres_kw c (complete_bool vals p af at' x).
    Proof.
      unfold complete_bool. destruct (se_node x); try apply kw_nil.
      - destruct (_ || _); [apply kw_nil|]. apply kw_ret, kw_other, bool_items_other.
      - destruct t; try apply kw_nil. destruct (bool_value vals x); [|apply kw_skip].
        destruct (_ || _); [apply kw_nil|]. apply kw_ret, kw_other, bool_items_other.
    Qed.

    Lemma one_other c i : other_kind i -> vres_kw c (vret [i]).
    Proof. intros H. apply kw_ret, kw_other. constructor; [exact H|constructor]. Qed.

    Lemma at_cursor_other k l n s t : k <> kKeyword -> other_kind (at_cursor p k l n s t).
    Proof. intros H. unfold other_kind, at_cursor. cbn. exact H. Qed.

    Lemma ecd_item_other k l c : k <> kKeyword -> other_kind (ecd_item prefill p k l c).
    Proof. intros H. unfold ecd_item. destruct (ecd prefill 40 c 1 0); apply at_cursor_other; exact H. Qed.

    Lemma kind_for_type_not_kw t : kind_for_type t <> kKeyword.
    Proof. destruct t; cbn; unfold kKeyword; discriminate. Qed.

    Lemma literal_type_kw c t skip e : vres_kw c (literal_type_cands vals p rec t skip e).
    Proof.
      destruct e as [|x]; cbn [literal_type_cands].
      - destruct (is_primitive t).
        + destruct t; try apply kw_nil. apply kw_ret, kw_other, bool_items_other.
        + destruct (is_dyn t); [apply kw_nil|]. destruct skip; [apply kw_nil|].
          apply one_other, at_cursor_other, kind_for_type_not_kw.
      - destruct t; try apply complete_bool_kw; destruct skip; try apply kw_nil; destruct (se_node x); try apply kw_nil;
          (destruct (expand_lit_type _) as [c'|] eqn:Ex; [|apply kw_nil];
           eapply kw_weaken; [|apply Hrec]; intros kw H; exfalso; eapply no_kw_expand; eassumption).
    Qed.

    Lemma literal_value_kw c v t e : vres_kw c (literal_value_cands vals p v t e).
    Proof.
      destruct e as [|x]; cbn [literal_value_cands].
      - apply one_other, at_cursor_other, kind_for_type_not_kw.
      - destruct t; try (apply one_other; unfold other_kind; cbn; unfold kKeyword; discriminate).
        destruct (bool_of_val v); [apply complete_bool_kw|apply kw_skip].
    Qed.

    Lemma keyword_kw kw nm e : vres_kw (CKeyword kw nm) (keyword_cands p kw e).
    Proof.
      assert (Hk : forall n s t sb eb, kw_item (CKeyword kw nm) (VC kKeyword (Some kw) n s t sb eb)).
      { intros n s t sb eb _. exists kw. split; [constructor|]. repeat eexists. }
      destruct e as [|x]; cbn [keyword_cands].
      - apply kw_ret. constructor; [apply Hk|constructor].
      - destruct (se_node x); try apply kw_nil. destruct steps as [|[rr| | | | |] [|]]; try apply kw_nil.
        destruct (_ || _); [apply kw_nil|]. destruct (bytes_prefix _ _); [|apply kw_nil].
        apply kw_ret. constructor; [apply Hk|constructor].
    Qed.

    Lemma one_of_kw cs0 cs e : (forall c, In c cs -> In c cs0) -> vres_kw (COneOf cs0) (one_of_cands rec cs e).
    Proof.
      induction cs as [|c r IH]; intros Hin; cbn [one_of_cands]; [apply kw_nil|].
      apply kw_app.
      - eapply kw_weaken; [|apply Hrec]. intros kw H. econstructor; [apply Hin; left; reflexivity|exact H].
      - apply IH. intros c' Hc'. apply Hin. right. exact Hc'.
    Qed.

    Lemma list_kw c k elem e : k <> kKeyword -> (forall ec kw, elem = Some ec -> has_kw ec kw -> has_kw c kw) ->
      vres_kw c (list_cands prefill file opens empties p rec k c elem e).
    Proof.
      intros Hk Hsub. destruct e as [|x]; cbn [list_cands].
      - apply one_other, ecd_item_other, Hk.
      - destruct (se_node x); try apply kw_nil. destruct elem as [ec|]; [|apply kw_nil].
        assert (Hr : forall e', vres_kw c (rec ec e')) by (intros e'; eapply kw_weaken; [|apply Hrec]; intros kw H; eapply Hsub; [reflexivity|exact H]).
        destruct (inside _ _); [|apply kw_nil]. destruct elems; [apply Hr|]. destruct (elem_at _ _ _ _); apply Hr.
    Qed.

    Lemma tuple_at_in elems : forall i cs le li y c, tuple_at file empties p i elems cs le li = TFound y c -> In c cs.
    Proof.
      induction elems as [|x r IH]; intros i cs le li y c H; cbn [tuple_at] in H; [discriminate|].
      destruct cs as [|c0 cr]; [discriminate|].
      destruct (is_empty_expr empties x); [discriminate|]. destruct (Z.ltb _ _); [discriminate|].
      destruct (at_or_end _ _); [injection H as _ <-; left; reflexivity|].
      destruct (dot_behind _ _ _); [injection H as _ <-; left; reflexivity|]. right. eapply IH; eassumption.
    Qed.

    Lemma tuple_kw c cs e : (forall c' kw, In c' cs -> has_kw c' kw -> has_kw c kw) ->
      vres_kw c (tuple_cands prefill file opens empties p rec c cs e).
    Proof.
      intros Hsub.
      assert (Hr : forall c' e', In c' cs -> vres_kw c (rec c' e')) by (intros c' e' Hin; eapply kw_weaken; [|apply Hrec]; intros kw H; eapply Hsub; eassumption).
      destruct e as [|x]; cbn [tuple_cands].
      - apply one_other, ecd_item_other. unfold kTuple, kKeyword; discriminate.
      - destruct (se_node x); try apply kw_nil. destruct cs as [|c0 cr]; [apply kw_nil|].
        destruct (negb _); [apply kw_nil|]. destruct elems as [|e0 es]; [apply Hr; left; reflexivity|].
        destruct (Nat.ltb _ _); [apply kw_nil|].
        destruct (tuple_at _ _ _ _ _ _ _ _) as [y c1|le li] eqn:Et.
        + apply Hr. eapply tuple_at_in; eassumption.
        + destruct (Z.leb _ _); [apply kw_nil|]. destruct (Nat.eqb _ _); [apply kw_nil|].
          destruct (trim_right_set _ _); [apply kw_nil|].
          destruct (nth_error _ _) as [c1|] eqn:En; [|apply kw_none]. apply Hr. eapply nth_error_In; eassumption.
    Qed.

    Lemma map_items_kw c ec interp items : (forall kw, has_kw ec kw -> has_kw c kw) -> forall rcv,
      match map_items empties p rec ec interp items rcv with IReturn r => vres_kw c r | IFall _ => True end.
    Proof.
      intros Hsub. induction items as [|[kr k v] r IH]; intros rcv; cbn [map_items]; [exact I|].
      destruct (_ && _); [apply kw_nil|]. destruct (Z.ltb _ _); [exact I|].
      destruct (contains_pos kr p).
      - destruct (key_parens k); [|apply kw_nil]. destruct interp; [apply rec_any|apply kw_nil].
      - destruct (at_or_end _ _); [eapply kw_weaken; [exact Hsub|apply Hrec]|apply IH].
    Qed.

    Lemma map_kw c elem interp e : (forall ec kw, elem = Some ec -> has_kw ec kw -> has_kw c kw) ->
      vres_kw c (map_cands prefill file opens empties p rec c elem interp e).
    Proof.
      intros Hsub. destruct e as [|x]; cbn [map_cands].
      - apply one_other, ecd_item_other. unfold kMap, kKeyword; discriminate.
      - destruct (se_node x); try apply kw_nil. destruct (negb _); [apply kw_nil|]. destruct elem as [ec|]; [|apply kw_nil].
        assert (Hs : forall kw, has_kw ec kw -> has_kw c kw) by (intros kw H; eapply Hsub; [reflexivity|exact H]).
        assert (Hr : forall e', vres_kw c (rec ec e')) by (intros e'; eapply kw_weaken; [exact Hs|apply Hrec]).
        cbv zeta.
        set (ic := match ecd prefill 40 ec 2 0 with Some d => _ | None => _ end).
        assert (Hone : vres_kw c (vret [ic])).
        { apply one_other. subst ic. destruct (ecd prefill 40 ec 2 0); apply at_cursor_other; unfold kAttribute, kKeyword; discriminate. }
        assert (Hfin : forall its rcv, vres_kw c match map_items empties p rec ec interp its rcv with IReturn r0 => r0 | IFall _ => vnil end -> True) by auto.
        destruct items as [|it its].
        + destruct (trim_space _ _); [exact Hone|]. destruct (last_is _ _); [apply Hr|].
          match goal with |- context [map_items ?a ?b ?c0 ?d ?e0 ?f ?g] =>
            pose proof (map_items_kw c d e0 f Hs g) as Hm; destruct (map_items a b c0 d e0 f g); [exact Hm|] end.
          repeat first [ exact Hone | apply kw_nil | apply Hr | apply rec_any
                       | match goal with |- vres_kw _ (match ?x with _ => _ end) => destruct x end
                       | match goal with |- vres_kw _ (if ?b then _ else _) => destruct b end ].
        + match goal with |- context [map_items ?a ?b ?c0 ?d ?e0 ?f ?g] =>
            pose proof (map_items_kw c d e0 f Hs g) as Hm; destruct (map_items a b c0 d e0 f g); [exact Hm|] end.
          repeat first [ exact Hone | apply kw_nil | apply Hr | apply rec_any
                       | match goal with |- vres_kw _ (match ?x with _ => _ end) => destruct x end
                       | match goal with |- vres_kw _ (if ?b then _ else _) => destruct b end ].
    Qed.

    Lemma attrs_to_cands_other prefix ats d er : Forall other_kind (attrs_to_cands prefill prefix ats d er).
    Proof.
      unfold attrs_to_cands. apply Forall_flat_map. apply Forall_forall. intros [name a] _.
      destruct (negb _); [constructor|].
      destruct (decl_get d name); [destruct (negb _); [constructor|]|];
        destruct (ecd prefill 40 (as_cons a) 1 0); (constructor; [unfold other_kind; cbn; unfold kAttribute, kKeyword; discriminate|constructor]).
    Qed.

    Lemma alookup_in {A} n (l : list (string * A)) a : alookup n l = Some a -> In (n, a) l.
    Proof.
      induction l as [|[k v] r IH]; cbn [alookup]; [discriminate|].
      destruct (String.eqb n k) eqn:E; [apply String.eqb_eq in E; subst; intros H; injection H as <-; left; reflexivity|].
      intros H. right. apply IH. exact H.
    Qed.

    Lemma object_items_kw c ats interp items : (forall n a kw, In (n, a) ats -> has_kw (as_cons a) kw -> has_kw c kw) -> forall st,
      match object_items prefill file empties p rec ats interp items st with OReturn r => vres_kw c r | OFall _ => True end.
    Proof.
      intros Hsub. induction items as [|[kr k v] r IH]; intros st; cbn [object_items]; [exact I|].
      assert (Hlk : forall n e', match alookup n ats with Some s => vres_kw c (rec (as_cons s) e') | None => True end).
      { intros n e'. destruct (alookup n ats) as [s|] eqn:El; [|exact I].
        eapply kw_weaken; [|apply Hrec]. intros kw H. eapply Hsub; [eapply alookup_in; exact El|exact H]. }
      destruct (_ && _); [apply kw_nil|].
      destruct (os_next st); [apply IH|]. destruct (Z.ltb _ _); [apply IH|].
      destruct (contains_pos kr p).
      - destruct k as [nm|pe|]; cbn [key_parens].
        + apply kw_ret, kw_other, attrs_to_cands_other.
        + destruct interp; [apply rec_any|apply kw_nil].
        + apply kw_nil.
      - destruct (at_or_end _ _); [|apply IH].
        destruct k as [nm|pe|].
        + specialize (Hlk nm (norm empties v)). destruct (alookup nm ats); [exact Hlk|apply kw_nil].
        + specialize (Hlk ""%string (norm empties v)). destruct (alookup "" ats); [exact Hlk|apply kw_nil].
        + specialize (Hlk ""%string (norm empties v)). destruct (alookup "" ats); [exact Hlk|apply kw_nil].
    Qed.

    Lemma object_kw c ats interp e : (forall n a kw, In (n, a) ats -> has_kw (as_cons a) kw -> has_kw c kw) ->
      vres_kw c (object_cands prefill file opens empties p rec c ats interp e).
    Proof.
      intros Hsub. destruct e as [|x]; cbn [object_cands].
      - apply one_other, ecd_item_other. unfold kObject, kKeyword; discriminate.
      - destruct (se_node x); try apply kw_nil. destruct (negb _); [apply kw_nil|]. destruct ats as [|a0 ats'] eqn:Ea; [apply kw_nil|]. rewrite <- Ea in *.
        match goal with |- context [object_items ?a ?b ?c0 ?d ?e0 ?f ?g ?h ?i] =>
          pose proof (object_items_kw c f g h Hsub i) as Hm; destruct (object_items a b c0 d e0 f g h i) as [r0|st]; [exact Hm|] end.
        destruct (trim_right_set _ _) as [|b0 bs]; [apply kw_nil|].
        match goal with |- vres_kw _ (match ?single with Some a1 => _ | None => _ end) => destruct single as [a1|] end.
        + repeat first [ apply kw_nil | match goal with |- vres_kw _ (if ?b then _ else _) => destruct b end ].
          apply kw_ret, kw_other, attrs_to_cands_other.
        + destruct (_ && _); [apply rec_any|]. destruct (last_is _ _).
          * destruct (alookup _ ats) as [s|] eqn:El; [|apply kw_nil].
            eapply kw_weaken; [|apply Hrec]. intros kw H. eapply Hsub; [eapply alookup_in; exact El|exact H].
          * apply kw_ret, kw_other, attrs_to_cands_other.
    Qed.

    Lemma ref_cands_other sc0 t0 prefix org flt : Forall other_kind (ref_cands refs sc0 t0 prefix org flt).
    Proof.
      unfold ref_cands. destruct (refs sc0 t0 prefix org) as [labels|].
      - apply Forall_forall. intros i Hi. apply in_map_iff in Hi as (l & <- & _). unfold other_kind; cbn; unfold kReference, kKeyword; discriminate.
      - constructor; [unfold other_kind; cbn; unfold kReference, kKeyword; discriminate|constructor].
    Qed.

    Lemma ref_items_kw c sc0 t0 e : vres_kw c (ref_items file fname refs p sc0 t0 e).
    Proof.
      destruct e as [|x]; cbn [ref_items]; [apply kw_ret, kw_other, ref_cands_other|].
      destruct (se_node x); try apply kw_nil; try apply kw_skip. apply kw_ret, kw_other, ref_cands_other.
    Qed.

    Lemma fn_cands_other t0 prefix sb eb : Forall other_kind (fn_cands fns t0 prefix sb eb).
    Proof.
      unfold fn_cands. destruct (fns prefix t0) as [l|].
      - apply Forall_forall. intros i Hi. apply in_map_iff in Hi as (c0 & <- & _). unfold other_kind; cbn; unfold kFunction, kKeyword; discriminate.
      - constructor; [unfold other_kind; cbn; unfold kFunction, kKeyword; discriminate|constructor].
    Qed.

    Lemma fn_items_kw c t0 e : vres_kw c (fn_items fns p t0 e).
    Proof.
      destruct e as [|x]; cbn [fn_items]; [apply kw_ret, kw_other, fn_cands_other|].
      destruct (se_node x); try apply kw_nil; try apply kw_skip.
      destruct steps as [|[rr| | | | |] [|]]; try apply kw_nil.
      destruct (_ || _); [apply kw_nil|]. apply kw_ret, kw_other, fn_cands_other.
    Qed.

    Lemma index_kw c e : vres_kw c (index_cands empties rec e).
    Proof.
      destruct e as [|x]; cbn [index_cands]; [apply kw_nil|]. destruct (se_node x); try apply kw_nil; [|apply rec_any].
      destruct (rev steps) as [|[| | | | |] [|]]; try apply kw_nil. apply rec_any.
    Qed.

    Lemma leaf_kw c t skip e : vres_kw c (leaf_cands file empties vals fname refs fns p rec t skip e).
    Proof.
      unfold leaf_cands. apply kw_app; [apply ref_items_kw|]. apply kw_app; [apply fn_items_kw|].
      apply kw_app; [apply literal_type_kw|apply index_kw].
    Qed.

    Lemma call_kw c t0 x : vres_kw c (call_cands file empties funcs parens fns p rec t0 x).
    Proof.
      unfold call_cands. destruct (se_node x); try apply kw_nil.
      destruct (contains_pos _ _); [apply kw_ret, kw_other, fn_cands_other|].
      repeat first [ apply kw_nil | apply rec_any
                   | match goal with |- vres_kw _ (match ?y with _ => _ end) => destruct y end
                   | match goal with |- vres_kw _ (if ?b then _ else _) => destruct b end
                   | match goal with |- vres_kw _ (let '(_, _) := ?y in _) => destruct y end ].
    Qed.

    Lemma non_complex_kw c t skip e : vres_kw c (non_complex_cands file empties vals funcs parens fname refs fns p rec t skip e).
    Proof.
      destruct e as [|x]; cbn [non_complex_cands]; [apply leaf_kw|].
      pose proof (leaf_kw c t skip (CExpr x)) as Hleaf.
      destruct (se_node x); try exact Hleaf; try apply kw_skip; try apply call_kw;
        repeat first [ exact Hleaf | apply kw_nil | apply kw_skip | apply rec_any
                     | apply kw_app
                     | match goal with |- vres_kw _ (match ?y with _ => _ end) => destruct y end
                     | match goal with |- vres_kw _ (if ?b then _ else _) => destruct b end ].
    Qed.

    Lemma any_kw c t skip e : vres_kw c (any_cands file empties vals funcs parens fname refs fns p rec t skip e).
    Proof.
      unfold any_cands. destruct skip; [apply non_complex_kw|]. destruct e as [|x]; [apply non_complex_kw|].
      pose proof (non_complex_kw c t false (CExpr x)) as Hnc.
      destruct t; try exact Hnc; destruct (se_node x); try exact Hnc;
        (eapply kw_weaken; [|apply Hrec]); intros kw H; exfalso; inversion H; subst;
        try (eapply no_kw_any; eassumption).
      - match goal with Hin : In _ (map _ _) |- _ => apply in_map_iff in Hin as (t0 & <- & _) end. eapply no_kw_lit; eassumption.
      - match goal with Hin : In _ (map _ _) |- _ => apply in_map_iff in Hin as ([n0 [t0 o0]] & Ea & _); injection Ea as <- <- end.
        match goal with Hk : has_kw (as_cons _) _ |- _ => cbn in Hk; eapply no_kw_lit; exact Hk end.
    Qed.

    Lemma step_kw c e : vres_kw c (step_cands prefill file opens empties vals funcs parens fname refs fns p rec rec_td c e).
    Proof.
      destruct c; cbn [step_cands].
      - apply any_kw.
      - apply literal_type_kw.
      - apply literal_value_kw.
      - apply keyword_kw.
      - destruct addr_scope; [apply kw_nil|apply ref_items_kw].
      - apply Hrec_td.
      - apply list_kw; [unfold kList, kKeyword; discriminate|]. intros ec kw -> H. constructor. exact H.
      - apply list_kw; [unfold kSet, kKeyword; discriminate|]. intros ec kw -> H. constructor. exact H.
      - apply tuple_kw. intros c' kw Hin H. econstructor; eassumption.
      - apply map_kw. intros ec kw -> H. constructor. exact H.
      - apply object_kw. intros n a kw Hin H. econstructor; eassumption.
      - apply one_of_kw. auto.
    Qed.
  End StepK.


  Lemma all_type_decls_other prefix sb eb : Forall other_kind (all_type_decls prefix sb eb).
  Proof.
    unfold all_type_decls. repeat (apply Forall_app; split); destruct (bytes_prefix _ _);
      try (constructor; [unfold other_kind, td_item; cbn; unfold kKeyword; discriminate|constructor]); constructor.
  Qed.

  Section StepTdK.
    Variable rec_td : cexpr -> vres.
    Hypothesis Hrec_td : forall c e, vres_kw c (rec_td e).

    Ltac tdkw :=
      repeat first
        [ apply Hrec_td | apply kw_nil | apply kw_skip | apply kw_none
        | apply kw_ret, kw_other; first [ apply all_type_decls_other | constructor; [unfold other_kind, td_attr_item, td_item; cbn; unfold kKeyword; discriminate|constructor] ]
        | match goal with |- vres_kw _ (match ?x with _ => _ end) => destruct x end
        | match goal with |- vres_kw _ (if ?b then _ else _) => destruct b end ].

    Lemma td_items_kw c items : forall rcv ll,
      match td_items empties p rec_td items rcv ll with DReturn r => vres_kw c r | DFall _ _ _ => True end.
    Proof.
      induction items as [|[kr k v] r IH]; intros rcv ll; cbn [td_items]; [exact I|].
      destruct (_ && _); [apply kw_nil|]. destruct (Z.ltb _ _); [exact I|].
      destruct (contains_pos kr p); [apply kw_nil|]. destruct (at_or_end _ _); [apply Hrec_td|apply IH].
    Qed.

    Lemma type_decl_kw c e : vres_kw c (type_decl_cands file opens empties cparens p rec_td e).
    Proof.
      destruct e as [|x]; cbn [type_decl_cands]; [tdkw|].
      destruct (se_node x); try apply kw_nil; [tdkw|].
      destruct (_ || _); [tdkw|]. destruct (lookup_parens _ _) as [[o c0]|]; [|apply kw_nil].
      destruct (_ && _); [|apply kw_nil]. destruct (is_elem_type_name _); [tdkw|].
      destruct (String.eqb _ "object").
      - unfold object_td. destruct args as [|a [|]]; try apply kw_nil; [tdkw|].
        destruct (se_node a); try apply kw_nil. destruct (negb _); [apply kw_nil|]. cbv zeta.
        destruct items as [|it its].
        + destruct (trim_space _ _); [tdkw|]. destruct (last_is _ _); [tdkw|].
          match goal with |- context [td_items ?a0 ?b ?c1 ?d ?e0 ?f] =>
            pose proof (td_items_kw c d e0 f) as Hm; destruct (td_items a0 b c1 d e0 f); [exact Hm|tdkw] end.
        + match goal with |- context [td_items ?a0 ?b ?c1 ?d ?e0 ?f] =>
            pose proof (td_items_kw c d e0 f) as Hm; destruct (td_items a0 b c1 d e0 f); [exact Hm|tdkw] end.
      - destruct (String.eqb _ "tuple"); [|apply kw_nil]. unfold tuple_td. tdkw.
    Qed.
  End StepTdK.

  Lemma type_cands_kw fuel : forall c e, vres_kw c (type_cands file opens empties cparens p fuel e).
  Proof.
    induction fuel as [|n IH]; intros c e; cbn [type_cands]; [apply kw_none|]. apply type_decl_kw. exact IH.
  Qed.

  Theorem value_cands_keywords_admitted fuel : forall c e, vres_kw c (value_cands prefill file opens empties vals funcs parens cparens fname refs fns p fuel c e).
  Proof.
    induction fuel as [|n IH]; intros c e; cbn [value_cands]; [apply kw_none|]. apply step_kw; [exact IH|intros c' e'; apply type_cands_kw].
  Qed.
End Keywords.

(* a Keyword constraint at an empty value offers exactly its keyword; on a name being typed it offers it iff the
   typed text (cursor inside or right behind the name) is a prefix of the keyword *)
Lemma keyword_at_empty p kw : keyword_cands p kw CEmpty = vret [VC kKeyword (Some kw) (Some kw) (Some kw) (Some false) (p_byte p) (p_byte p)].
Proof. reflexivity. Qed.

Lemma keyword_on_typed_name p kw r vt root rr res :
  (0 <= p_byte p - rs rr <= Z.of_nat (String.length root))%Z ->
  keyword_cands p kw (CExpr (SE r vt (NTrav root [TSRoot rr] res))) =
    if bytes_prefix (String.substring 0 (Z.to_nat (p_byte p - rs rr)) root) kw
    then vret [VC kKeyword (Some kw) (Some kw) (Some kw) (Some false) (rs r) (re r)] else vnil.
Proof.
  intros (H1 & H2). cbn [keyword_cands se_node se_rng]. unfold P, pb.
  assert (Z.ltb (p_byte p - rs rr) 0 = false) as -> by (apply Z.ltb_ge; lia).
  assert (Z.ltb (Z.of_nat (String.length root)) (p_byte p - rs rr) = false) as -> by (apply Z.ltb_ge; lia).
  reflexivity.
Qed.

(* object attribute names offered inside an object value: exactly the attributes of the constraint that start with the
   typed text and are not declared elsewhere in the object (an attribute whose own item is being edited stays) *)
Lemma attrs_to_cands_exact prefill prefix ats d er name :
  (exists n s t, In (VC kAttribute (Some name) n s t (fst er) (snd er)) (attrs_to_cands prefill prefix ats d er)) <->
  (exists a, In (name, a) ats) /\ bytes_prefix prefix name = true /\ (forall dr, decl_get d name = Some dr -> overlaps dr er = true).
Proof.
  unfold attrs_to_cands. split.
  - intros (n & s & t & H). apply in_flat_map in H as ([nm a] & Hin & H).
    destruct (bytes_prefix prefix nm) eqn:Ep; cbn [negb] in H; [|destruct H].
    destruct (decl_get d nm) as [dr|] eqn:Ed.
    + destruct (overlaps dr er) eqn:Eo; cbn [negb] in H; [|destruct H].
      destruct (ecd prefill 40 (as_cons a) 1 0); destruct H as [H|[]]; injection H as <- _ _ _;
        (split; [exists a; exact Hin|split; [exact Ep|intros dr' E; rewrite Ed in E; injection E as <-; exact Eo]]).
    + destruct (ecd prefill 40 (as_cons a) 1 0); destruct H as [H|[]]; injection H as <- _ _ _;
        (split; [exists a; exact Hin|split; [exact Ep|intros dr' E; rewrite Ed in E; discriminate]]).
  - intros ((a & Hin) & Ep & Hd).
    assert (Hx : exists n s t, In (VC kAttribute (Some name) n s t (fst er) (snd er))
              ((fun a0 : string * attr_schema => let '(name0, s0) := a0 in
                 if negb (bytes_prefix prefix name0) then []
                 else match decl_get d name0 with
                      | Some dr => if negb (overlaps dr er) then [] else
                          [match ecd prefill 40 (as_cons s0) 1 0 with
                           | Some c => VC kAttribute (Some name0) (Some name0) (Some (name0 ++ " = " ++ render (cd_snip c))%string) (Some (cd_trigger c)) (fst er) (snd er)
                           | None => VC kAttribute (Some name0) (Some name0) None None (fst er) (snd er) end]
                      | None =>
                          [match ecd prefill 40 (as_cons s0) 1 0 with
                           | Some c => VC kAttribute (Some name0) (Some name0) (Some (name0 ++ " = " ++ render (cd_snip c))%string) (Some (cd_trigger c)) (fst er) (snd er)
                           | None => VC kAttribute (Some name0) (Some name0) None None (fst er) (snd er) end]
                      end) (name, a))).
    { cbn beta iota. rewrite Ep. cbn [negb]. destruct (decl_get d name) as [dr|] eqn:Ed.
      - rewrite (Hd dr eq_refl). cbn [negb]. destruct (ecd prefill 40 (as_cons a) 1 0); repeat eexists; left; reflexivity.
      - destruct (ecd prefill 40 (as_cons a) 1 0); repeat eexists; left; reflexivity. }
    destruct Hx as (n & s & t & Hx). exists n, s, t. apply in_flat_map. exists (name, a). split; [exact Hin|exact Hx].
Qed.

(* ------------------------------------------------------------------------------------------------
   (3) Tuple completion indexes the declared element constraints within bounds: whichever element slot the
       recovery of the text left of the cursor selects - the next one behind a comma, the first one behind the
       opening bracket, the one after the written elements - a constraint is declared for it.  (The model's
       [nth_error ... = None] branch, the analogue of an index out of range in Tuple.CompletionAtPos, is dead.) *)
Section TupleBounds.
  Variable file : bytes.
  Variable empties : list range.
  Variable p : pos.

  Lemma tuple_at_last_idx elems : forall i cs le li le' li',
    tuple_at file empties p i elems cs le li = TDone le' li' -> (li' = li \/ (i <= li' < i + length elems)%nat).
  Proof.
    induction elems as [|x r IH]; intros i cs le li le' li' H; cbn [tuple_at] in H.
    - destruct cs; injection H as _ <-; left; reflexivity.
    - destruct cs as [|c cr]; [injection H as _ <-; left; reflexivity|].
      destruct (is_empty_expr empties x); [injection H as _ <-; left; reflexivity|].
      destruct (Z.ltb _ _); [injection H as _ <-; left; reflexivity|].
      destruct (at_or_end _ _); [discriminate|]. destruct (dot_behind _ _ _); [discriminate|].
      apply IH in H. cbn [length]. destruct H as [->|H]; right; lia.
  Qed.

  Lemma tuple_slot_declared elems cs le' li' (s : string) :
    elems <> [] -> (length elems < length cs)%nat ->
    tuple_at file empties p 0 elems cs 0%Z 0 = TDone le' li' \/ (exists le0, tuple_at file empties p 0 elems cs le0 0 = TDone le' li') ->
    nth_error cs (if String.eqb s "," then S li' else if String.eqb s "[" then 0%nat else length elems) <> None.
  Proof.
    intros Hne Hlt H. apply nth_error_Some.
    assert (Hli : (li' < length elems)%nat).
    { destruct H as [H|(le0 & H)]; apply tuple_at_last_idx in H; destruct elems; try congruence; cbn [length] in *; destruct H as [->|H]; lia. }
    destruct (String.eqb s ","); [lia|]. destruct (String.eqb s "["); lia.
  Qed.
End TupleBounds.

(* ------------------------------------------------------------------------------------------------
   (4) The descent fails only by running out of fuel: whenever one step of the value-completion model answers
       "out of fuel" ([None]), one of the recursive calls it made did.  In particular no step fails by itself - not
       the tuple slot lookup, not the recovery of text, not any scan over elements, items, parts or arguments - for
       any constraint, expression, file content and cursor.  (With the bounds theorem above this is the model's
       analogue of "completion inside a value returns a list for every input".) *)
Section NoInternalFailure.
  Variable prefill : bool.
  Variable file : bytes.
  Variable opens : range_table.
  Variable empties : list range.
  Variable vals : list (range * sexp).
  Variable funcs : fsigs.
  Variable parens : range_table.
  Variable cparens : paren_table.
  Variable fname : string.
  Variable refs : string -> ty -> string -> range -> option (list string).
  Variable fns : string -> ty -> option (list FuncCands.fcand).
  Variable p : pos.

  Lemma nn_ret l : vret l <> None. Proof. discriminate. Qed.
  Lemma nn_nil : vnil <> None. Proof. discriminate. Qed.
  Lemma nn_skip : vskip <> None. Proof. discriminate. Qed.
  Lemma nn_app a b : a <> None -> b <> None -> vapp a b <> None.
  Proof. intros Ha Hb. destruct a as [[x|]|]; destruct b as [[y|]|]; cbn; congruence. Qed.

  Section StepN.
    Variable rec : constraint -> cexpr -> vres.
    Hypothesis Hrec : forall c e, rec c e <> None.
    Variable rec_td : cexpr -> vres.
    Hypothesis Hrec_td : forall e, rec_td e <> None.

    Ltac nn :=
      repeat first
        [ assumption | apply nn_ret | apply nn_nil | apply nn_skip | apply Hrec | apply Hrec_td
        | apply nn_app
        | match goal with |- (match ?x with _ => _ end) <> None => destruct x eqn:? end
        | match goal with |- (if ?b then _ else _) <> None => destruct b eqn:? end
        | match goal with |- (let '(_, _) := ?y in _) <> None => destruct y end ].

    Lemma complete_bool_nn af at' x : complete_bool vals p af at' x <> None.
    Proof. unfold complete_bool. nn. Qed.

    Lemma literal_type_nn t skip e : literal_type_cands vals p rec t skip e <> None.
    Proof. destruct e as [|x]; cbn [literal_type_cands]; [nn|]. destruct t; try apply complete_bool_nn; nn. Qed.

    Lemma literal_value_nn v t e : literal_value_cands vals p v t e <> None.
    Proof. destruct e as [|x]; cbn [literal_value_cands]; [nn|]. destruct t; try (destruct (bool_of_val v); [apply complete_bool_nn|apply nn_skip]); nn. Qed.

    Lemma keyword_nn kw e : keyword_cands p kw e <> None.
    Proof. destruct e as [|x]; cbn [keyword_cands]; nn. Qed.

    Lemma one_of_nn cs e : one_of_cands rec cs e <> None.
    Proof. induction cs as [|c r IH]; cbn [one_of_cands]; [apply nn_nil|apply nn_app; [apply Hrec|exact IH]]. Qed.

    Lemma list_nn k self elem e : list_cands prefill file opens empties p rec k self elem e <> None.
    Proof. destruct e as [|x]; cbn [list_cands]; nn. Qed.

    Lemma tuple_nn self cs e : tuple_cands prefill file opens empties p rec self cs e <> None.
    Proof.
      destruct e as [|x]; cbn [tuple_cands]; [nn|].
      destruct (se_node x); try apply nn_nil. destruct cs as [|c0 cr]; [apply nn_nil|].
      destruct (negb _); [apply nn_nil|]. destruct elems as [|e0 es]; [apply Hrec|].
      destruct (Nat.ltb (length (c0 :: cr)) (length (e0 :: es))) eqn:El; [apply nn_nil|].
      destruct (tuple_at _ _ _ _ _ _ _ _) as [y c1|le li] eqn:Et; [apply Hrec|].
      destruct (Z.leb _ _); [apply nn_nil|].
      destruct (Nat.eqb (length (e0 :: es)) (length (c0 :: cr))) eqn:Ee; [apply nn_nil|].
      destruct (trim_right_set _ _) as [|b0 bs] eqn:Etr; [apply nn_nil|].
      match goal with |- (match nth_error ?l ?i with _ => _ end) <> None => destruct (nth_error l i) as [c1|] eqn:En end; [apply Hrec|].
      exfalso. apply Nat.ltb_ge in El. apply Nat.eqb_neq in Ee.
      refine (tuple_slot_declared file empties p (e0 :: es) (c0 :: cr) le li (string_of_bytes (b0 :: bs)) _ _ _ En); [discriminate|lia|].
      right. eexists. exact Et.
    Qed.

    Lemma map_items_nn elem interp items : forall rcv,
      match map_items empties p rec elem interp items rcv with IReturn r => r <> None | IFall _ => True end.
    Proof.
      induction items as [|[kr k v] r IH]; intros rcv; cbn [map_items]; [exact I|].
      destruct (_ && _); [apply nn_nil|]. destruct (Z.ltb _ _); [exact I|].
      destruct (contains_pos kr p); [nn|]. destruct (at_or_end _ _); [apply Hrec|apply IH].
    Qed.

    Lemma map_nn self elem interp e : map_cands prefill file opens empties p rec self elem interp e <> None.
    Proof.
      destruct e as [|x]; cbn [map_cands]; [nn|].
      destruct (se_node x); try apply nn_nil. destruct (negb _); [apply nn_nil|]. destruct elem as [ec|]; [|apply nn_nil].
      cbv zeta. destruct items as [|it its].
      - destruct (trim_space _ _); [apply nn_ret|]. destruct (last_is _ _); [apply Hrec|].
        match goal with |- context [map_items ?a ?b ?c0 ?d ?e0 ?f ?g] =>
          pose proof (map_items_nn d e0 f g) as Hm; destruct (map_items a b c0 d e0 f g); [exact Hm|nn] end.
      - match goal with |- context [map_items ?a ?b ?c0 ?d ?e0 ?f ?g] =>
          pose proof (map_items_nn d e0 f g) as Hm; destruct (map_items a b c0 d e0 f g); [exact Hm|nn] end.
    Qed.

    Lemma object_items_nn ats interp items : forall st,
      match object_items prefill file empties p rec ats interp items st with OReturn r => r <> None | OFall _ => True end.
    Proof.
      induction items as [|[kr k v] r IH]; intros st; cbn [object_items]; [exact I|].
      destruct (_ && _); [apply nn_nil|]. destruct (os_next st); [apply IH|]. destruct (Z.ltb _ _); [apply IH|].
      destruct (contains_pos kr p); [nn|]. destruct (at_or_end _ _); [nn|apply IH].
    Qed.

    Lemma object_nn self ats interp e : object_cands prefill file opens empties p rec self ats interp e <> None.
    Proof.
      destruct e as [|x]; cbn [object_cands]; [nn|].
      destruct (se_node x); try apply nn_nil. destruct (negb _); [apply nn_nil|]. destruct ats as [|a0 ats'] eqn:Ea; [apply nn_nil|]. rewrite <- Ea.
      match goal with |- context [object_items ?a ?b ?c0 ?d ?e0 ?f ?g ?h ?i] =>
        pose proof (object_items_nn f g h i) as Hm; destruct (object_items a b c0 d e0 f g h i); [exact Hm|nn] end.
    Qed.

    Lemma ref_items_nn sc0 t0 e : ref_items file fname refs p sc0 t0 e <> None.
    Proof. destruct e as [|x]; cbn [ref_items]; nn. Qed.
    Lemma fn_items_nn t0 e : fn_items fns p t0 e <> None.
    Proof. destruct e as [|x]; cbn [fn_items]; nn. Qed.
    Lemma index_nn e : index_cands empties rec e <> None.
    Proof. destruct e as [|x]; cbn [index_cands]; nn. Qed.
    Lemma leaf_nn t skip e : leaf_cands file empties vals fname refs fns p rec t skip e <> None.
    Proof. unfold leaf_cands. apply nn_app; [apply ref_items_nn|]. apply nn_app; [apply fn_items_nn|]. apply nn_app; [apply literal_type_nn|apply index_nn]. Qed.

    Lemma call_nn t0 x : call_cands file empties funcs parens fns p rec t0 x <> None.
    Proof. unfold call_cands. nn. Qed.

    Lemma non_complex_nn t skip e : non_complex_cands file empties vals funcs parens fname refs fns p rec t skip e <> None.
    Proof.
      destruct e as [|x]; cbn [non_complex_cands]; [apply leaf_nn|].
      pose proof (leaf_nn t skip (CExpr x)) as Hleaf. pose proof (call_nn t x) as Hcall.
      destruct (se_node x); try exact Hleaf; try exact Hcall; nn.
    Qed.

    Lemma any_nn t skip e : any_cands file empties vals funcs parens fname refs fns p rec t skip e <> None.
    Proof.
      unfold any_cands. destruct skip; [apply non_complex_nn|]. destruct e as [|x]; [apply non_complex_nn|].
      pose proof (non_complex_nn t false (CExpr x)) as Hnc.
      destruct t; try exact Hnc; destruct (se_node x); try exact Hnc; try apply Hrec.
    Qed.

    Lemma step_nn c e : step_cands prefill file opens empties vals funcs parens fname refs fns p rec rec_td c e <> None.
    Proof.
      destruct c; cbn [step_cands].
      - apply any_nn. - apply literal_type_nn. - apply literal_value_nn. - apply keyword_nn.
      - destruct addr_scope; [apply nn_nil|apply ref_items_nn].
      - apply Hrec_td. - apply list_nn. - apply list_nn. - apply tuple_nn. - apply map_nn. - apply object_nn. - apply one_of_nn.
    Qed.
  End StepN.

  Section StepTdN.
    Variable rec_td : cexpr -> vres.
    Hypothesis Hrec_td : forall e, rec_td e <> None.

    Ltac nnt :=
      repeat first
        [ assumption | apply nn_ret | apply nn_nil | apply nn_skip | apply Hrec_td
        | match goal with |- (match ?x with _ => _ end) <> None => destruct x eqn:? end
        | match goal with |- (if ?b then _ else _) <> None => destruct b eqn:? end
        | match goal with |- (let '(_, _) := ?y in _) <> None => destruct y end ].

    Lemma td_items_nn items : forall rcv ll,
      match td_items empties p rec_td items rcv ll with DReturn r => r <> None | DFall _ _ _ => True end.
    Proof.
      induction items as [|[kr k v] r IH]; intros rcv ll; cbn [td_items]; [exact I|].
      destruct (_ && _); [apply nn_nil|]. destruct (Z.ltb _ _); [exact I|].
      destruct (contains_pos kr p); [apply nn_nil|]. destruct (at_or_end _ _); [apply Hrec_td|apply IH].
    Qed.

    Lemma type_decl_nn e : type_decl_cands file opens empties cparens p rec_td e <> None.
    Proof.
      destruct e as [|x]; cbn [type_decl_cands]; [apply nn_ret|].
      destruct (se_node x); try apply nn_nil; [nnt|].
      destruct (_ || _); [apply nn_ret|]. destruct (lookup_parens _ _) as [[o c0]|]; [|apply nn_nil].
      destruct (_ && _); [|apply nn_nil]. destruct (is_elem_type_name _); [nnt|].
      destruct (String.eqb _ "object").
      - unfold object_td. destruct args as [|a [|]]; try apply nn_nil; [apply nn_ret|].
        destruct (se_node a); try apply nn_nil. destruct (negb _); [apply nn_nil|]. cbv zeta.
        destruct items as [|it its].
        + destruct (trim_space _ _); [apply nn_ret|]. destruct (last_is _ _); [apply nn_ret|].
          match goal with |- context [td_items ?a0 ?b ?c1 ?d ?e0 ?f] =>
            pose proof (td_items_nn d e0 f) as Hm; destruct (td_items a0 b c1 d e0 f); [exact Hm|nnt] end.
        + match goal with |- context [td_items ?a0 ?b ?c1 ?d ?e0 ?f] =>
            pose proof (td_items_nn d e0 f) as Hm; destruct (td_items a0 b c1 d e0 f); [exact Hm|nnt] end.
      - destruct (String.eqb _ "tuple"); [|apply nn_nil]. unfold tuple_td. nnt.
    Qed.
  End StepTdN.

  (* no step fails by itself: if nothing fails with fuel n, nothing fails with fuel n+1 *)
  Theorem type_cands_no_internal_failure n :
    (forall e', type_cands file opens empties cparens p n e' <> None) ->
    forall e, type_cands file opens empties cparens p (S n) e <> None.
  Proof. intros H e. cbn [type_cands]. apply type_decl_nn. exact H. Qed.

  Theorem value_cands_no_internal_failure n :
    (forall c' e', value_cands prefill file opens empties vals funcs parens cparens fname refs fns p n c' e' <> None) ->
    (forall e', type_cands file opens empties cparens p n e' <> None) ->
    forall c e, value_cands prefill file opens empties vals funcs parens cparens fname refs fns p (S n) c e <> None.
  Proof. intros H Ht c e. cbn [value_cands]. apply step_nn; [exact H|exact Ht]. Qed.
End NoInternalFailure.
