(* Completion inside attribute values (Model/ValueCands.v).

   (1) Every candidate the model yields - and every place it reserves for reference / function candidates -
       carries an edit range that starts at or before the cursor and reaches it (byte offsets), for every
       constraint, every expression shape, at any depth, whatever text surrounds the cursor.
       What the parser must deliver for that ([wfc]): a traversal's range covers at least its root name and
       starts where its root step starts, a boolean literal's range covers its text, an object item's key
       ends no later than its value.  The harness checks exactly this on every file it serialises.
   (2) Keyword candidates: each carries the keyword of a Keyword constraint that occurs in the attribute's
       constraint; at an empty value a Keyword constraint offers exactly its keyword. *)
From Coq Require Import String Ascii List ZArith Bool Lia.
From HV Require Import Base.Sexp Base.Str Base.SortSpec Base.Pos Model.Addr Model.DepKeys Model.Schema Model.Ast Model.Merge
                       Model.Ref Model.Collect Model.Origins Model.ValueTargets Model.BodyQueries Model.ValueTokens
                       Model.Completion Model.Snippet Model.ValueHover Model.ValueCands.
Import ListNotations.
Open Scope list_scope.
Open Scope Z_scope.

Section Reach.
  Variable prefill : bool.
  Variable file : bytes.
  Variable opens : range_table.
  Variable empties : list range.
  Variable vals : list (range * sexp).
  Variable p : pos.

  Notation PP := (p_byte p).

  Definition bool_text (b : bool) : string := if b then "true"%string else "false"%string.

  (* what completion relies on in the syntax tree *)
  Inductive wfc : sexpr -> Prop :=
  | WcS r vt n : wfc_node r n -> wfc (SE r vt n)
  with wfc_node : range -> snode -> Prop :=
  | CTrav r root steps res :
      rs r + Z.of_nat (String.length root) <= re r ->
      (forall rr rest, steps = TSRoot rr :: rest -> rs rr = rs r) ->
      wfc_node r (NTrav root steps res)
  | CLit r t :
      (forall v b, lookup_val vals r = Some v -> bool_of_val v = Some b -> rs r + Z.of_nat (String.length (bool_text b)) <= re r) ->
      wfc_node r (NLit t)
  | CTemplate r lit parts : Forall wfc parts -> wfc_node r (NTemplate lit parts)
  | CWrap r e : wfc e -> wfc_node r (NWrap e)
  | CTuple' r elems : Forall wfc elems -> wfc_node r (NTuple elems)
  | CObject' r items : Forall wfc_item items -> wfc_node r (NObject items)
  | CBinary r rt p1 p2 a b : wfc a -> wfc b -> wfc_node r (NBinary rt p1 p2 a b)
  | CUnary r rt p1 e : wfc e -> wfc_node r (NUnary rt p1 e)
  | CParens r e : wfc e -> wfc_node r (NParens e)
  | CCond r c a b : wfc c -> wfc a -> wfc b -> wfc_node r (NCond c a b)
  | CFor r coll k v c : wfc coll -> (forall x, k = Some x -> wfc x) -> wfc v -> (forall x, c = Some x -> wfc x) -> wfc_node r (NFor coll k v c)
  | CIndex r k : wfc k -> wfc_node r (NIndex k)
  | CCall r name nr args : wfc_node r (NCall name nr args)
  | COther r : wfc_node r NOther
  with wfc_item : sitem -> Prop :=
  | CItem kr k v : re kr <= re (se_rng v) -> wfc v -> (forall pe, k = SKParens pe -> wfc pe) -> wfc_item (SItem kr k v).

  Definition cexpr_wf (e : cexpr) : Prop := match e with CEmpty => True | CExpr x => wfc x end.

  Definition item_ok (i : vitem) : Prop := vi_sb i <= PP <= vi_eb i.
  Definition vres_ok (r : vres) : Prop := forall l, r = Some (Some l) -> Forall item_ok l.

  Lemma ok_nil : vres_ok vnil.
  Proof. intros l E. injection E as <-. constructor. Qed.
  Lemma ok_skip : vres_ok vskip.
  Proof. intros l E. discriminate. Qed.
  Lemma ok_none : vres_ok None.
  Proof. intros l E. discriminate. Qed.
  Lemma ok_ret l : Forall item_ok l -> vres_ok (vret l).
  Proof. intros H l' E. injection E as <-. exact H. Qed.
  Lemma ok_app a b : vres_ok a -> vres_ok b -> vres_ok (vapp a b).
  Proof.
    intros Ha Hb l E. destruct a as [[x|]|]; destruct b as [[y|]|]; cbn [vapp] in E; try discriminate.
    injection E as <-. apply Forall_app. split; [apply Ha|apply Hb]; reflexivity.
  Qed.

  Lemma at_cursor_ok k l n s t : item_ok (at_cursor p k l n s t).
  Proof. unfold item_ok, at_cursor, P, pb; cbn. lia. Qed.

  Lemma norm_wf x : wfc x -> cexpr_wf (norm empties x).
  Proof. intros H. unfold norm. destruct (is_empty_expr empties x); cbn; auto. Qed.

  Section Step.
    Variable rec : constraint -> cexpr -> vres.
    Hypothesis Hrec : forall c e, cexpr_wf e -> vres_ok (rec c e).

    Ltac open_c e Hw r vt n Hn := destruct e as [r vt n]; inversion Hw as [? ? ? Hn]; subst; cbn [se_rng se_node se_vt] in *.

    Lemma ecd_item_ok k l c : item_ok (ecd_item prefill p k l c).
    Proof. unfold ecd_item. destruct (ecd prefill 40 c 1 0); apply at_cursor_ok. Qed.

    Lemma keyword_ok kw e : cexpr_wf e -> vres_ok (keyword_cands p kw e).
    Proof.
      intros Hw. destruct e as [|x]; cbn [keyword_cands].
      - apply ok_ret. constructor; [apply at_cursor_ok|constructor].
      - cbn in Hw. open_c x Hw r vt n Hn. destruct n; try apply ok_nil.
        destruct steps as [|[rr| | | |] [|]]; try apply ok_nil.
        inversion Hn as [? ? ? ? Hlen Hroot| | | | | | | | | | | | |]; subst.
        specialize (Hroot rr [] eq_refl).
        destruct (_ || _) eqn:Eg; [apply ok_nil|].
        apply orb_false_elim in Eg as (E1 & E2). apply Z.ltb_ge in E1. apply Z.ltb_ge in E2.
        destruct (bytes_prefix _ _); [|apply ok_nil].
        apply ok_ret. constructor; [|constructor]. unfold item_ok; cbn. unfold P, pb in *. lia.
    Qed.

    Lemma bool_items_ok af at' prefix sb eb : sb <= PP <= eb -> Forall item_ok (bool_items af at' prefix sb eb).
    Proof.
      intros H. unfold bool_items. apply Forall_app. split.
      - destruct (_ && _); constructor; [exact H|constructor].
      - destruct (_ && _); constructor; [exact H|constructor].
    Qed.

    Lemma complete_bool_ok af at' x : wfc x -> vres_ok (complete_bool vals p af at' x).
    Proof.
      intros Hw. open_c x Hw r vt n Hn. unfold complete_bool. cbn [se_node se_rng].
      destruct n; try apply ok_nil.
      - inversion Hn as [? ? ? ? Hlen Hroot| | | | | | | | | | | | |]; subst.
        destruct (_ || _) eqn:Eg; [apply ok_nil|].
        apply orb_false_elim in Eg as (E1 & E2). apply Z.ltb_ge in E1. apply Z.ltb_ge in E2.
        apply ok_ret. apply bool_items_ok. unfold P, pb in *. lia.
      - destruct t; try apply ok_nil.
        inversion Hn as [|? ? Hb| | | | | | | | | | | |]; subst.
        unfold bool_value, value_of. cbn [se_rng].
        destruct (lookup_val vals r) as [v|] eqn:Ev; [|apply ok_skip].
        destruct (bool_of_val v) as [b|] eqn:Eb; [|apply ok_skip].
        specialize (Hb v b eq_refl Eb).
        destruct (_ || _) eqn:Eg; [apply ok_nil|].
        apply orb_false_elim in Eg as (E1 & E2). apply Z.ltb_ge in E1. apply Z.ltb_ge in E2.
        apply ok_ret. apply bool_items_ok. unfold P, pb, bool_text in *. destruct b; cbn in *; lia.
    Qed.

    Ltac side := cbn [cexpr_wf]; first [exact I | assumption | apply norm_wf; assumption].
    Ltac vok :=
      repeat first
        [ assumption | apply ok_nil | apply ok_skip | apply ok_none
        | apply ok_app
        | apply Hrec; side
        | match goal with |- vres_ok (match ?x with _ => _ end) => destruct x eqn:? end
        | match goal with |- vres_ok (if ?b then _ else _) => destruct b eqn:? end ].

    Lemma literal_type_ok t skip e : cexpr_wf e -> vres_ok (literal_type_cands vals p rec t skip e).
    Proof.
      intros Hw. destruct e as [|x]; cbn [literal_type_cands].
      - destruct (is_primitive t).
        + destruct t; try apply ok_nil. apply ok_ret. apply bool_items_ok. unfold P, pb. lia.
        + destruct (is_dyn t); [apply ok_nil|]. destruct skip; [apply ok_nil|].
          apply ok_ret. constructor; [apply at_cursor_ok|constructor].
      - cbn in Hw. destruct t; try (apply complete_bool_ok; exact Hw); vok.
    Qed.

    Lemma literal_value_ok v t e : cexpr_wf e -> vres_ok (literal_value_cands vals p v t e).
    Proof.
      intros Hw. destruct e as [|x]; cbn [literal_value_cands].
      - apply ok_ret. constructor; [apply at_cursor_ok|constructor].
      - cbn in Hw.
        assert (Hgen : vres_ok (vret [VC (kind_for_type t) None None None None
                   (if Z.ltb (P p) (rs (se_rng x)) then P p else rs (se_rng x))
                   (if Z.leb (rs (se_rng x)) (P p) && Z.ltb (P p) (if Z.eqb (p_line (r_end (se_rng x))) (p_line p) then re (se_rng x) else P p)
                    then (if Z.eqb (p_line (r_end (se_rng x))) (p_line p) then re (se_rng x) else P p) else P p)])).
        { apply ok_ret. constructor; [|constructor]. unfold item_ok; cbn [vi_sb vi_eb]. unfold P, pb.
          destruct (Z.ltb_spec (p_byte p) (rs (se_rng x))); destruct (Z.eqb _ _);
            repeat match goal with |- context [Z.leb ?a ?b] => destruct (Z.leb_spec a b) end;
            repeat match goal with |- context [Z.ltb ?a ?b] => destruct (Z.ltb_spec a b) end; cbn [andb]; lia. }
        destruct t; try exact Hgen.
        destruct (bool_of_val v); [apply complete_bool_ok; exact Hw|apply ok_skip].
    Qed.

    Lemma one_of_ok cs e : cexpr_wf e -> vres_ok (one_of_cands rec cs e).
    Proof. intros Hw. induction cs as [|c r IH]; cbn [one_of_cands]; [apply ok_nil|]. apply ok_app; [apply Hrec; exact Hw|exact IH]. Qed.

    Lemma elem_at_wf elems y : Forall wfc elems -> elem_at file empties p elems = Some y -> wfc y.
    Proof.
      induction elems as [|x r IH]; intros HF H; cbn [elem_at] in H; [discriminate|].
      inversion HF as [|? ? Hx Hr]; subst.
      destruct (is_empty_expr empties x); [discriminate|].
      destruct (Z.ltb _ _); [discriminate|].
      destruct (at_or_end _ _); [injection H as <-; exact Hx|].
      destruct (dot_behind _ _ _); [injection H as <-; exact Hx|]. apply IH; assumption.
    Qed.

    Lemma list_ok k self elem e : cexpr_wf e -> vres_ok (list_cands prefill file opens empties p rec k self elem e).
    Proof.
      intros Hw. destruct e as [|x]; cbn [list_cands].
      - apply ok_ret. constructor; [apply ecd_item_ok|constructor].
      - cbn in Hw. open_c x Hw r vt n Hn. destruct n; try apply ok_nil. destruct elem as [ec|]; [|apply ok_nil].
        inversion Hn; subst.
        destruct (inside _ _); [|apply ok_nil].
        destruct elems as [|e0 es]; [apply Hrec; exact I|].
        destruct (elem_at file empties p (e0 :: es)) as [y|] eqn:Ey; [|apply Hrec; exact I].
        apply Hrec. cbn. eapply elem_at_wf; eassumption.
    Qed.

    Lemma tuple_at_wf elems : forall i cs le li y c, Forall wfc elems -> tuple_at file empties p i elems cs le li = TFound y c -> wfc y.
    Proof.
      induction elems as [|x r IH]; intros i cs le li y c HF H; cbn [tuple_at] in H; [discriminate|].
      destruct cs as [|c0 cr]; [discriminate|]. inversion HF as [|? ? Hx Hr]; subst.
      destruct (is_empty_expr empties x); [discriminate|].
      destruct (Z.ltb _ _); [discriminate|].
      destruct (at_or_end _ _); [injection H as <- _; exact Hx|].
      destruct (dot_behind _ _ _); [injection H as <- _; exact Hx|]. eapply IH; eassumption.
    Qed.

    Lemma tuple_ok self cs e : cexpr_wf e -> vres_ok (tuple_cands prefill file opens empties p rec self cs e).
    Proof.
      intros Hw. destruct e as [|x]; cbn [tuple_cands].
      - apply ok_ret. constructor; [apply ecd_item_ok|constructor].
      - cbn in Hw. open_c x Hw r vt n Hn. destruct n; try apply ok_nil. inversion Hn; subst.
        destruct cs as [|c0 cr]; [apply ok_nil|].
        destruct (negb _); [apply ok_nil|].
        destruct elems as [|e0 es]; [apply Hrec; exact I|].
        destruct (Nat.ltb _ _); [apply ok_nil|].
        destruct (tuple_at _ _ _ _ _ _ _ _) as [y c|le li] eqn:Et.
        + apply Hrec. cbn. eapply tuple_at_wf; eassumption.
        + vok.
    Qed.

    Lemma map_items_ok elem interp items : Forall wfc_item items -> forall rcv,
      match map_items empties p rec elem interp items rcv with IReturn r => vres_ok r | IFall _ => True end.
    Proof.
      induction items as [|it r IH]; intros HF rcv; cbn [map_items]; [exact I|].
      inversion HF as [|? ? Hi Hr]; subst. destruct it as [kr k v]. inversion Hi as [? ? ? Hke Hv Hpe]; subst.
      destruct (_ && _); [apply ok_nil|].
      destruct (Z.ltb _ _); [exact I|].
      destruct (contains_pos kr p).
      - destruct k as [nm|pe|]; cbn [key_parens]; try apply ok_nil.
        destruct interp; [|apply ok_nil]. apply Hrec. apply norm_wf. apply Hpe. reflexivity.
      - destruct (at_or_end _ _); [apply Hrec; apply norm_wf; exact Hv|]. apply IH. exact Hr.
    Qed.

    Lemma map_ok self elem interp e : cexpr_wf e -> vres_ok (map_cands prefill file opens empties p rec self elem interp e).
    Proof.
      intros Hw. destruct e as [|x]; cbn [map_cands].
      - apply ok_ret. constructor; [apply ecd_item_ok|constructor].
      - cbn in Hw. open_c x Hw r vt n Hn. destruct n; try apply ok_nil.
        inversion Hn as [| | | | |? ? Hitems| | | | | | | |]; subst.
        destruct (negb _); [apply ok_nil|]. destruct elem as [ec|]; [|apply ok_nil].
        cbv zeta.
        set (ic := match ecd prefill 40 ec 2 0 with Some d => _ | None => _ end).
        assert (Hic : item_ok ic) by (subst ic; destruct (ecd prefill 40 ec 2 0); apply at_cursor_ok).
        assert (Hone : vres_ok (vret [ic])) by (apply ok_ret; constructor; [exact Hic|constructor]).
        assert (Hnil : Forall wfc_item []) by constructor.
        destruct items as [|it its].
        + destruct (trim_space _ _); [exact Hone|].
          destruct (last_is _ _); [apply Hrec; exact I|].
          match goal with |- context [map_items ?a ?b ?c ?d ?e ?f ?g] =>
            pose proof (map_items_ok d e f Hnil g) as Hm; destruct (map_items a b c d e f g); [exact Hm|vok; exact Hone] end.
        + match goal with |- context [map_items ?a ?b ?c ?d ?e ?f ?g] =>
            pose proof (map_items_ok d e f Hitems g) as Hm; destruct (map_items a b c d e f g); [exact Hm|vok; exact Hone] end.
    Qed.

    Lemma attrs_to_cands_ok prefix ats d er : fst er <= PP <= snd er -> Forall item_ok (attrs_to_cands prefill prefix ats d er).
    Proof.
      intros H. unfold attrs_to_cands. apply Forall_flat_map. apply Forall_forall. intros [name a] _.
      destruct (negb _); [constructor|].
      destruct (decl_get d name).
      - destruct (negb _); [constructor|]. destruct (ecd prefill 40 (as_cons a) 1 0); (constructor; [exact H|constructor]).
      - destruct (ecd prefill 40 (as_cons a) 1 0); (constructor; [exact H|constructor]).
    Qed.

    Lemma object_items_ok ats interp items : Forall wfc_item items -> forall st,
      match object_items prefill file empties p rec ats interp items st with OReturn r => vres_ok r | OFall _ => True end.
    Proof.
      induction items as [|it r IH]; intros HF st; cbn [object_items]; [exact I|].
      inversion HF as [|? ? Hi Hr]; subst. destruct it as [kr k v]. inversion Hi as [? ? ? Hke Hv Hpe]; subst.
      destruct (_ && _); [apply ok_nil|].
      destruct (os_next st); [apply IH; exact Hr|].
      destruct (Z.ltb _ _); [apply IH; exact Hr|].
      destruct (contains_pos kr p) eqn:Ec.
      - destruct k as [nm|pe|]; cbn [key_parens].
        + apply ok_ret. apply attrs_to_cands_ok. cbn [fst snd].
          unfold contains_pos, contains_offset in Ec. apply andb_prop in Ec as (E1 & E2). apply Z.leb_le in E1. apply Z.ltb_lt in E2.
          unfold rs, re in *. lia.
        + destruct interp; [|apply ok_nil]. apply Hrec. apply norm_wf. apply Hpe. reflexivity.
        + apply ok_nil.
      - destruct (at_or_end _ _); [|apply IH; exact Hr].
        destruct k as [nm|pe|]; destruct (alookup _ ats); try apply ok_nil; apply Hrec; apply norm_wf; exact Hv.
    Qed.

    Lemma object_ok self ats interp e : cexpr_wf e -> vres_ok (object_cands prefill file opens empties p rec self ats interp e).
    Proof.
      intros Hw. destruct e as [|x]; cbn [object_cands].
      - apply ok_ret. constructor; [apply ecd_item_ok|constructor].
      - cbn in Hw. open_c x Hw r vt n Hn. destruct n; try apply ok_nil. inversion Hn; subst.
        destruct (negb _); [apply ok_nil|]. destruct ats as [|a0 ats']; [apply ok_nil|].
        match goal with |- context [object_items ?a ?b ?c ?d ?e ?f ?g ?h ?i] => pose proof (object_items_ok f g h H1 i) as Hm; destruct (object_items a b c d e f g h i) as [r0|st] end.
        + exact Hm.
        + destruct (trim_right_set _ _) as [|b0 bs] eqn:Et; [apply ok_nil|].
          match goal with |- vres_ok (match ?single with Some a1 => _ | None => _ end) => destruct single as [a1|] end.
          * vok. apply ok_ret. apply attrs_to_cands_ok. cbn. unfold P, pb. lia.
          * vok. apply ok_ret. apply attrs_to_cands_ok. cbn [fst snd]. unfold P, pb. lia.
    Qed.

    Lemma ref_items_ok e : vres_ok (ref_items p e).
    Proof.
      destruct e as [|x]; cbn [ref_items].
      - apply ok_ret. constructor; [unfold item_ok, P, pb; cbn; lia|constructor].
      - destruct (se_node x); try apply ok_nil; try apply ok_skip.
        apply ok_ret. constructor; [|constructor]. unfold item_ok. cbn [vi_sb vi_eb].
        unfold edit_range, with_end, with_start, contains_pos, contains_offset, rs, re.
        destruct (Z.leb_spec (p_byte (r_start (se_rng x))) (p_byte p)); destruct (Z.ltb_spec (p_byte p) (p_byte (r_end (se_rng x)))); cbn [andb r_start r_end];
          repeat match goal with |- context [Z.ltb ?a ?b] => destruct (Z.ltb_spec a b) end; cbn [r_start r_end p_byte]; lia.
    Qed.

    Lemma fn_items_ok e : cexpr_wf e -> vres_ok (fn_items p e).
    Proof.
      intros Hw. destruct e as [|x]; cbn [fn_items].
      - apply ok_ret. constructor; [unfold item_ok, P, pb; cbn; lia|constructor].
      - cbn in Hw. open_c x Hw r vt n Hn. destruct n; try apply ok_nil; try apply ok_skip.
        destruct steps as [|[rr| | | |] [|]]; try apply ok_nil.
        inversion Hn as [? ? ? ? Hlen Hroot| | | | | | | | | | | | |]; subst.
        specialize (Hroot rr [] eq_refl).
        destruct (_ || _) eqn:Eg; [apply ok_nil|].
        apply orb_false_elim in Eg as (E1 & E2). apply Z.ltb_ge in E1. apply Z.ltb_ge in E2.
        apply ok_ret. constructor; [|constructor]. unfold item_ok; cbn. unfold P, pb in *. lia.
    Qed.

    Lemma index_ok e : cexpr_wf e -> vres_ok (index_cands empties rec e).
    Proof.
      intros Hw. destruct e as [|x]; cbn [index_cands]; [apply ok_nil|].
      cbn in Hw. open_c x Hw r vt n Hn. destruct n; try apply ok_nil.
      - vok.
      - inversion Hn; subst. apply Hrec. apply norm_wf. assumption.
    Qed.

    Lemma leaf_ok t skip e : cexpr_wf e -> vres_ok (leaf_cands empties vals p rec t skip e).
    Proof.
      intros Hw. unfold leaf_cands. apply ok_app; [apply ref_items_ok|]. apply ok_app; [apply fn_items_ok; exact Hw|].
      apply ok_app; [apply literal_type_ok; exact Hw|apply index_ok; exact Hw].
    Qed.

    Lemma parts_at_wf parts y : Forall wfc parts -> parts_at file p parts = Some y -> wfc y.
    Proof.
      induction parts as [|x r IH]; intros HF H; cbn [parts_at] in H; [discriminate|].
      inversion HF as [|? ? Hx Hr]; subst.
      destruct (Z.ltb _ _); [discriminate|].
      destruct (at_or_end _ _); [injection H as <-; exact Hx|].
      destruct (dot_behind _ _ _); [injection H as <-; exact Hx|]. apply IH; assumption.
    Qed.

    Lemma non_complex_ok t skip e : cexpr_wf e -> vres_ok (non_complex_cands file empties vals p rec t skip e).
    Proof.
      intros Hw. destruct e as [|x]; cbn [non_complex_cands]; [apply leaf_ok; exact I|].
      pose proof (leaf_ok t skip (CExpr x) Hw) as Hleaf.
      cbn in Hw. destruct x as [r vt n]. inversion Hw as [? ? ? Hn]; subst. cbn [se_node se_rng] in *.
      destruct n; try exact Hleaf; try apply ok_skip; inversion Hn; subst.
      - destruct lit; [apply ok_nil|].
        destruct (parts_at file p parts) as [y|] eqn:Ep; [|apply ok_nil].
        apply ok_app; [apply Hrec; apply norm_wf; eapply parts_at_wf; eassumption|exact Hleaf].
      - vok; exact Hleaf.
      - vok; exact Hleaf.
      - vok; exact Hleaf.
      - vok; exact Hleaf.
      - vok; exact Hleaf.
      - destruct (negb _); [exact Hleaf|].
        destruct (at_or_end (se_rng coll) p); [apply ok_app; [apply Hrec; apply norm_wf; assumption|exact Hleaf]|].
        destruct key as [k0|].
        + destruct (at_or_end (se_rng k0) p).
          * destruct (iter_key_type t); [apply ok_app; [apply Hrec; apply norm_wf; auto|exact Hleaf]|exact Hleaf].
          * destruct (at_or_end (se_rng val) p).
            -- destruct (iter_val_type t); [apply ok_app; [apply Hrec; apply norm_wf; assumption|exact Hleaf]|exact Hleaf].
            -- destruct cond as [c0|]; [|apply ok_nil]. destruct (at_or_end (se_rng c0) p); [|apply ok_nil].
               apply ok_app; [apply Hrec; apply norm_wf; auto|exact Hleaf].
        + destruct (at_or_end (se_rng val) p).
          * destruct (iter_val_type t); [apply ok_app; [apply Hrec; apply norm_wf; assumption|exact Hleaf]|exact Hleaf].
          * destruct cond as [c0|]; [|apply ok_nil]. destruct (at_or_end (se_rng c0) p); [|apply ok_nil].
            apply ok_app; [apply Hrec; apply norm_wf; auto|exact Hleaf].
    Qed.

    Lemma any_ok t skip e : cexpr_wf e -> vres_ok (any_cands file empties vals p rec t skip e).
    Proof.
      intros Hw. unfold any_cands. destruct skip; [apply non_complex_ok; exact Hw|].
      destruct e as [|x]; [apply non_complex_ok; exact Hw|].
      pose proof (non_complex_ok t false (CExpr x) Hw) as Hnc.
      destruct t; try exact Hnc; destruct (se_node x); try exact Hnc; try (apply Hrec; exact Hw).
    Qed.

    Lemma step_ok c e : cexpr_wf e -> vres_ok (step_cands prefill file opens empties vals p rec c e).
    Proof.
      intros Hw. destruct c; cbn [step_cands].
      - apply any_ok; exact Hw.
      - apply literal_type_ok; exact Hw.
      - apply literal_value_ok; exact Hw.
      - apply keyword_ok; exact Hw.
      - destruct addr_scope; [apply ok_nil|apply ref_items_ok].
      - apply ok_skip.
      - apply list_ok; exact Hw.
      - apply list_ok; exact Hw.
      - apply tuple_ok; exact Hw.
      - apply map_ok; exact Hw.
      - apply object_ok; exact Hw.
      - apply one_of_ok; exact Hw.
    Qed.
  End Step.

  (* every candidate and every place reserved for reference / function candidates reaches the cursor *)
  Theorem value_cands_reach_cursor fuel : forall c e, cexpr_wf e -> vres_ok (value_cands prefill file opens empties vals p fuel c e).
  Proof.
    induction fuel as [|n IH]; intros c e Hw; cbn [value_cands]; [apply ok_none|].
    apply step_ok; [exact IH|exact Hw].
  Qed.
End Reach.
