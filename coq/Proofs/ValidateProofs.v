From Coq Require Import String Ascii List ZArith Bool Lia.
From HV Require Import Base.Sexp Base.Str Base.Pos Model.Addr Model.DepKeys Model.Schema Model.Ast Model.Merge Model.Validate.
Import ListNotations.

Definition is_unexpected (d : diag) : bool :=
  match d_kind d with KUnexpectedAttr | KUnexpectedBlock => true | _ => false end.

Lemma Forall_app_intro {A} (P : A -> Prop) l1 l2 : Forall P l1 -> Forall P l2 -> Forall P (l1 ++ l2).
Proof. intros. apply Forall_app; split; assumption. Qed.

Lemma Forall_flat_map {A B} (P : B -> Prop) (f : A -> list B) l :
  (forall a, In a l -> Forall P (f a)) -> Forall P (flat_map f l).
Proof.
  induction l as [|x r IH]; simpl; intros H; [constructor|].
  apply Forall_app_intro; [apply H; now left|apply IH; intros; apply H; now right].
Qed.

(* ---------- 1. nothing is reported as unexpected below an unresolved schema ---------- *)
Lemma attr_diags_unknown s a : Forall (fun d => is_unexpected d = false) (attr_diags true s a).
Proof.
  unfold attr_diags. apply Forall_app_intro.
  - destruct s as [sc|]; [|constructor]. destruct (af_deprecated (as_flags sc)); repeat constructor.
  - destruct s; constructor.
Qed.

Lemma surplus_not_unexpected v i t rs : Forall (fun d => is_unexpected d = false) (surplus_label_diags v i t rs).
Proof.
  revert i; induction rs as [|r rest IH]; intros i; simpl; [constructor|].
  apply Forall_app_intro; [|apply IH]. destruct (Nat.leb v i); repeat constructor.
Qed.

Lemma block_diags_unknown s k : Forall (fun d => is_unexpected d = false) (block_diags true s k).
Proof.
  unfold block_diags. destruct s as [sc|]; [|constructor].
  apply Forall_app_intro; [apply surplus_not_unexpected|].
  apply Forall_app_intro.
  - destruct (Nat.ltb _ _); repeat constructor.
  - destruct (bk_deprecated sc); repeat constructor.
Qed.

Lemma body_diags_not_unexpected bs b : Forall (fun d => is_unexpected d = false) (body_diags bs b).
Proof.
  unfold body_diags. repeat apply Forall_app_intro; apply Forall_flat_map; intros [n sc] _.
  - destruct (_ && _ && _); repeat constructor.
  - destruct (_ && _ && _); repeat constructor.
  - destruct (_ && _); repeat constructor.
Qed.

Lemma unknown_in_true s : unknown_in true s = true.
Proof. reflexivity. Qed.

Lemma walk_unknown_no_unexpected b0 :
  forall s, Forall (fun d => is_unexpected d = false) (walk_body true s b0).
Proof.
  apply (body_ind'
    (fun b => forall s, Forall (fun d => is_unexpected d = false) (walk_body true s b))
    (fun k => forall s, Forall (fun d => is_unexpected d = false) (walk_block walk_body true s k))).
  - intros attrs blocks r e IH s. cbn [walk_body]. rewrite unknown_in_true.
    apply Forall_app_intro; [apply Forall_flat_map; intros a _; apply attr_diags_unknown|].
    apply Forall_app_intro.
    + induction IH as [|k rest Hk _ IHr]; cbn [walk_blocks]; [constructor|].
      apply Forall_app_intro; [apply Hk|apply IHr].
    + destruct s; [apply body_diags_not_unexpected|constructor].
  - intros t ls lrs tr o c r d kb IH s. unfold walk_block.
    apply Forall_app_intro; [apply block_diags_unknown|].
    destruct (block_schema_for s _) as [sc|]; [|apply IH].
    destruct (bk_body sc); [|apply IH].
    destruct (merge_block_body_schemas sc _) as [m res]. cbn [orb]. apply IH.
Qed.

(* the walker sets the flag exactly when the dependent body could not be (fully) resolved *)
Lemma unresolved_dependent_body_silences_unexpected u s sc k m res :
  block_schema_for s k = Some sc -> bk_body sc <> None ->
  merge_block_body_schemas sc k = (m, res) ->
  (res = LookupFailed \/ res = LookupPartiallySuccessful) ->
  exists own, walk_block walk_body u s k = (own ++ walk_body true (Some m) (k_body k))%list.
Proof.
  intros Hs Hb Hm Hres. unfold walk_block. rewrite Hs.
  destruct k as [t ls lrs tr o c r d kb]. cbn [k_body].
  destruct (bk_body sc) eqn:E; [|congruence]. rewrite Hm.
  eexists. f_equal. f_equal. destruct Hres as [-> | ->]; apply orb_true_r.
Qed.

(* ---------- 2. a dynamic block of that type satisfies the minimum ---------- *)
Lemma dynamic_satisfies_minimum bs b name :
  ext_has ext_dynamic (bs_ext bs) = true -> (0 < count_dynamic name (b_blocks b))%Z ->
  forall d, In d (body_diags bs b) -> d_kind d = KTooFewBlocks -> d_name d <> name.
Proof.
  intros Hext Hdyn d Hin Hk Hname. unfold body_diags in Hin.
  apply in_app_or in Hin. destruct Hin as [Hin|Hin].
  - apply in_flat_map in Hin. destruct Hin as ([n sc] & _ & Hin).
    destruct (_ && _ && _); [|contradiction]. destruct Hin as [<-|[]]. discriminate.
  - apply in_app_or in Hin. destruct Hin as [Hin|Hin].
    + apply in_flat_map in Hin. destruct Hin as ([n sc] & _ & Hin).
      destruct (negb (bk_min sc =? 0)%Z && (count_blocks n (b_blocks b) <? bk_min sc)%Z &&
                negb (ext_has ext_dynamic (bs_ext bs) && (0 <? count_dynamic n (b_blocks b))%Z)) eqn:E; [|contradiction].
      destruct Hin as [<-|[]]. cbn [d_name] in Hname. subst n.
      rewrite Hext in E. apply Z.ltb_lt in Hdyn. rewrite Hdyn in E.
      rewrite andb_false_r in E. discriminate.
    + apply in_flat_map in Hin. destruct Hin as ([n sc] & _ & Hin).
      destruct (_ && _); [|contradiction]. destruct Hin as [<-|[]]. discriminate.
Qed.

(* ---------- 3. exactly the missing required attributes are reported, once each ---------- *)
Lemma missing_required_iff bs b name :
  (exists d, In d (body_diags bs b) /\ d_kind d = KMissingRequired /\ d_name d = name) <->
  (exists sc, In (name, sc) (bs_attrs bs) /\ af_required (as_flags sc) = true /\ find_attr name (b_attrs b) = None).
Proof.
  unfold body_diags. split.
  - intros (d & Hin & Hk & Hn).
    apply in_app_or in Hin. destruct Hin as [Hin|Hin].
    { apply in_flat_map in Hin. destruct Hin as ([n sc] & _ & Hin).
      destruct (_ && _ && _); [|contradiction]. destruct Hin as [<-|[]]. discriminate. }
    apply in_app_or in Hin. destruct Hin as [Hin|Hin].
    { apply in_flat_map in Hin. destruct Hin as ([n sc] & _ & Hin).
      destruct (_ && _ && _); [|contradiction]. destruct Hin as [<-|[]]. discriminate. }
    apply in_flat_map in Hin. destruct Hin as ([n sc] & Hmem & Hin).
    destruct (af_required (as_flags sc)) eqn:Er; cbn [andb] in Hin; [|contradiction].
    destruct (find_attr n (b_attrs b)) eqn:Ef; cbn [negb] in Hin; [contradiction|].
    destruct Hin as [<-|[]]. cbn [d_name] in Hn. subst n. exists sc. auto.
  - intros (sc & Hmem & Hr & Hf).
    eexists. split; [|split].
    + apply in_or_app. right. apply in_or_app. right. apply in_flat_map.
      exists (name, sc). split; [exact Hmem|]. cbn. rewrite Hr, Hf. cbn. left. reflexivity.
    + reflexivity.
    + reflexivity.
Qed.

(* ---------- 4. every diagnostic's subject is a range of an item of the walked body ---------- *)
Fixpoint item_ranges (b : body) : list range :=
  match b with
  | Body attrs blocks r _ =>
      r :: (map a_rng attrs ++
            (fix go (l : list block) : list range :=
               match l with
               | [] => []
               | Block _ _ lrs tr _ _ _ _ kb :: rest => tr :: (lrs ++ item_ranges kb ++ go rest)
               end) blocks)%list
  end.

Definition block_item_ranges (k : block) : list range :=
  match k with Block _ _ lrs tr _ _ _ _ kb => tr :: (lrs ++ item_ranges kb)%list end.

Lemma item_ranges_eq attrs blocks r e :
  item_ranges (Body attrs blocks r e) = (r :: (map a_rng attrs ++ flat_map block_item_ranges blocks))%list.
Proof.
  cbn [item_ranges]. f_equal. f_equal.
  induction blocks as [|k rest IH]; [reflexivity|].
  destruct k as [t ls lrs tr o c rg d kb]. cbn [flat_map block_item_ranges]. rewrite IH.
  cbn [app]. f_equal. now rewrite <- !app_assoc.
Qed.

Lemma surplus_subjects v i t rs d : In d (surplus_label_diags v i t rs) -> In (d_subject d) rs.
Proof.
  revert i; induction rs as [|r rest IH]; intros i; simpl; [tauto|].
  intros H. apply in_app_or in H. destruct H as [H|H].
  - destruct (Nat.leb v i); [|contradiction]. destruct H as [<-|[]]. now left.
  - right. eapply IH; eauto.
Qed.

Lemma In_firstn {A} (x : A) n l : In x (firstn n l) -> In x l.
Proof.
  revert l; induction n as [|n IH]; intros [|y l]; simpl; try tauto.
  intros [->|H]; auto.
Qed.

Lemma block_diags_subjects u s k d : In d (block_diags u s k) -> In (d_subject d) (block_item_ranges k).
Proof.
  destruct k as [t ls lrs tr o c rg df kb]. unfold block_diags. cbn [k_labels k_label_rngs k_type k_type_rng block_item_ranges].
  destruct s as [sc|].
  - intros H. apply in_app_or in H. destruct H as [H|H].
    + right. apply in_or_app. left. apply surplus_subjects in H. eapply In_firstn; eauto.
    + apply in_app_or in H. destruct H as [H|H].
      * destruct (Nat.ltb _ _); [|contradiction]. destruct H as [<-|[]]. now left.
      * destruct (bk_deprecated sc); [|contradiction]. destruct H as [<-|[]]. now left.
  - destruct u; [contradiction|]. intros [<-|[]]. now left.
Qed.

Lemma body_diags_subjects bs b d : In d (body_diags bs b) -> d_subject d = b_rng b.
Proof.
  unfold body_diags. intros H.
  apply in_app_or in H. destruct H as [H|H]; [|apply in_app_or in H; destruct H as [H|H]];
    apply in_flat_map in H; destruct H as ([n sc] & _ & H).
  - destruct (_ && _ && _); [|contradiction]. now destruct H as [<-|[]].
  - destruct (_ && _ && _); [|contradiction]. now destruct H as [<-|[]].
  - destruct (_ && _); [|contradiction]. now destruct H as [<-|[]].
Qed.

Lemma attr_diags_subjects u s a d : In d (attr_diags u s a) -> d_subject d = a_rng a.
Proof.
  unfold attr_diags. intros H. apply in_app_or in H. destruct H as [H|H].
  - destruct s as [sc|]; [|contradiction]. destruct (af_deprecated _); [|contradiction]. now destruct H as [<-|[]].
  - destruct s; [contradiction|]. destruct u; [contradiction|]. now destruct H as [<-|[]].
Qed.

Lemma walk_subjects_are_item_ranges b0 :
  forall u s d, In d (walk_body u s b0) -> In (d_subject d) (item_ranges b0).
Proof.
  apply (body_ind'
    (fun b => forall u s d, In d (walk_body u s b) -> In (d_subject d) (item_ranges b))
    (fun k => forall u s d, In d (walk_block walk_body u s k) -> In (d_subject d) (block_item_ranges k))).
  - intros attrs blocks r e IH u s d H. rewrite item_ranges_eq. cbn [walk_body] in H.
    apply in_app_or in H. destruct H as [H|H].
    + apply in_flat_map in H. destruct H as (a & Ha & H). apply attr_diags_subjects in H.
      right. apply in_or_app. left. rewrite H. now apply in_map.
    + apply in_app_or in H. destruct H as [H|H].
      * right. apply in_or_app. right.
        induction IH as [|k rest Hk _ IHr]; cbn [walk_blocks] in H; [contradiction|].
        cbn [flat_map]. apply in_app_or in H. apply in_or_app. destruct H as [H|H]; [left; eapply Hk; eauto|right; auto].
      * destruct s as [bs|]; [|contradiction]. apply body_diags_subjects in H. left. now rewrite H.
  - intros t ls lrs tr o c r df kb IH u s d H. unfold walk_block in H.
    apply in_app_or in H. destruct H as [H|H]; [eapply block_diags_subjects; eauto|].
    cbn [block_item_ranges]. right. apply in_or_app. right.
    destruct (block_schema_for s _) as [sc|]; [|eapply IH; eauto].
    destruct (bk_body sc); [|eapply IH; eauto].
    destruct (merge_block_body_schemas sc _) as [m res]. eapply IH; eauto.
Qed.
