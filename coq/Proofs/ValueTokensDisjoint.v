(* Tokens inside attribute values are pairwise disjoint wherever the parser keeps the parts of an expression
   apart (siblings do not overlap, a key ends before its value starts, a function name ends before its
   arguments): with the containment theorem of ValueTokensProofs.v the tokens of different parts lie in
   disjoint ranges; the tokens a node emits itself are its name / key / steps or a single whole-range token. *)
From Coq Require Import String List ZArith Bool Lia.
From HV Require Import Base.Sexp Base.Str Base.SortSpec Base.Pos Model.Addr Model.DepKeys Model.Schema Model.Ast Model.Merge
                       Model.Ref Model.Collect Model.Origins Model.ValueTargets Model.BodyQueries Model.ValueTokens
                       Proofs.ValueTargetsProofs Proofs.ValueTokensProofs.
Import ListNotations.
Open Scope string_scope.
Open Scope list_scope.

Definition rdisj (a b : range) : Prop :=
  (p_byte (r_end a) <= p_byte (r_start b))%Z \/ (p_byte (r_end b) <= p_byte (r_start a))%Z.

Lemma rdisj_sym a b : rdisj a b -> rdisj b a.
Proof. unfold rdisj. tauto. Qed.

Lemma rdisj_inside a b a' b' : rdisj a b -> inside a' a -> inside b' b -> rdisj a' b'.
Proof. unfold rdisj, inside. intros [H|H] (_ & S1 & E1) (_ & S2 & E2); [left|right]; lia. Qed.

Definition tdisj (x y : vtoken) : Prop := rdisj (vk_rng x) (vk_rng y).
Definition pw (ts : list vtoken) : Prop := ForallOrdPairs tdisj ts.
Definition pw_res (res : tres) : Prop := forall ts, res = Some (Some ts) -> pw ts.

Lemma pw_app l1 l2 : pw l1 -> pw l2 -> (forall x y, In x l1 -> In y l2 -> tdisj x y) -> pw (l1 ++ l2).
Proof.
  intros H1 H2 H12. induction H1 as [|x l Hx _ IH]; cbn [app]; [exact H2|].
  constructor.
  - apply Forall_app. split; [exact Hx|]. apply Forall_forall. intros y Hy. apply H12; [now left|exact Hy].
  - apply IH. intros a b Ha Hb. apply H12; [now right|exact Hb].
Qed.

Lemma pw_single t : pw [t].
Proof. constructor; constructor. Qed.

Lemma pw_nil : pw [].
Proof. constructor. Qed.

(* results that live in ranges which are pairwise disjoint combine to a pairwise disjoint result *)
Lemma bind_all_pw (items : list (range * tres)) :
  Forall (fun p => toks_inside (fst p) (snd p) /\ pw_res (snd p)) items ->
  ForallOrdPairs rdisj (map fst items) ->
  pw_res (bind_all (map snd items)).
Proof.
  induction items as [|[r res] l IH]; intros HF HD; cbn [map bind_all].
  - intros ts E. injection E as <-. apply pw_nil.
  - inversion HF as [|? ? (Hin & Hpw) Hl]; subst. inversion HD as [|? ? Hr Hd]; subst. specialize (IH Hl Hd).
    cbn [fst snd] in *. destruct res as [[a|]|].
    + destruct (bind_all (map snd l)) as [[b|]|] eqn:Eb; intros ts E; try discriminate. injection E as <-.
      apply pw_app; [apply Hpw; reflexivity|apply IH; reflexivity|].
      intros x y Hx Hy.
      (* y comes from one of the later items, inside its range *)
      assert (Hy' : exists p, In p l /\ exists ys, snd p = Some (Some ys) /\ In y ys).
      { clear -Eb Hy. revert b Eb Hy. induction l as [|[r' res'] l' IHl]; intros b Eb Hy; cbn [map bind_all] in Eb.
        - injection Eb as <-. destruct Hy.
        - destruct res' as [[a'|]|]; cbn [snd] in Eb.
          + destruct (bind_all (map snd l')) as [[b'|]|] eqn:Eb'; try discriminate. injection Eb as <-.
            apply in_app_iff in Hy as [Hy|Hy].
            * exists (r', Some (Some a')). split; [now left|]. exists a'. split; [reflexivity|exact Hy].
            * destruct (IHl _ eq_refl Hy) as (p & Hp & ys & Hs & Hi). exists p. split; [now right|]. exists ys. split; assumption.
          + destruct (bind_all (map snd l')) as [[b'|]|]; discriminate.
          + discriminate. }
      destruct Hy' as (p & Hp & ys & Hs & Hiy).
      rewrite Forall_forall in Hl, Hr. destruct (Hl p Hp) as (Hinp & _).
      pose proof (Hinp ys Hs) as Hys. rewrite Forall_forall in Hys.
      pose proof (Hin a eq_refl) as Hxs. rewrite Forall_forall in Hxs.
      unfold tdisj. eapply rdisj_inside; [apply Hr; apply in_map; exact Hp|apply Hxs; exact Hx|apply Hys; exact Hiy].
    + destruct (bind_all (map snd l)) as [[b|]|]; intros ts E; discriminate.
    + intros ts E. discriminate.
Qed.

(* ---------------- what the parser guarantees about siblings ---------------- *)
Definition item_span (i : sitem) : range := match i with SItem kr _ v => range_between kr (se_rng v) end.

Definition opt_list {A} (o : option A) : list A := match o with Some x => [x] | None => [] end.

Inductive dj_s : sexpr -> Prop :=
| DjS r vt n : dj_node n -> dj_s (SE r vt n)
with dj_node : snode -> Prop :=
| DTrav root steps res : ForallOrdPairs rdisj (map step_rng steps) -> dj_node (NTrav root steps res)
| DLit t : dj_node (NLit t)
| DTemplate lit parts : ForallOrdPairs rdisj (map se_rng parts) -> Forall dj_s parts -> dj_node (NTemplate lit parts)
| DWrap e : dj_s e -> dj_node (NWrap e)
| DTuple elems : ForallOrdPairs rdisj (map se_rng elems) -> Forall dj_s elems -> dj_node (NTuple elems)
| DObject items : ForallOrdPairs rdisj (map item_span items) -> Forall dj_item items -> dj_node (NObject items)
| DBinary rt p1 p2 a b : rdisj (se_rng a) (se_rng b) -> dj_s a -> dj_s b -> dj_node (NBinary rt p1 p2 a b)
| DUnary rt p e : dj_s e -> dj_node (NUnary rt p e)
| DParens e : dj_s e -> dj_node (NParens e)
| DCond c a b : ForallOrdPairs rdisj [se_rng c; se_rng a; se_rng b] -> dj_s c -> dj_s a -> dj_s b -> dj_node (NCond c a b)
| DFor coll k v c :
    ForallOrdPairs rdisj (map se_rng (coll :: opt_list k ++ v :: opt_list c)) ->
    Forall dj_s (coll :: opt_list k ++ v :: opt_list c) -> dj_node (NFor coll k v c)
| DIndex k : dj_s k -> dj_node (NIndex k)
| DCall name nr args : ForallOrdPairs rdisj (nr :: map se_rng args) -> Forall dj_s args -> dj_node (NCall name nr args)
| DOther : dj_node NOther
with dj_item : sitem -> Prop :=
| DItem kr k v :
    rdisj kr (se_rng v) -> inside kr (range_between kr (se_rng v)) -> inside (se_rng v) (range_between kr (se_rng v)) ->
    dj_s v -> (forall pe, k = SKParens pe -> inside (se_rng pe) kr /\ dj_s pe) -> dj_item (SItem kr k v).

Definition good (r : range) (res : tres) : Prop := toks_inside r res /\ pw_res res.

Lemma good_ret_single r t tr : inside tr r -> good r (ret [tok t tr]).
Proof.
  intros H. split.
  - apply toks_inside_ret. apply Forall_cons; [exact H|apply Forall_nil].
  - intros ts E. injection E as <-. apply pw_single.
Qed.

Lemma good_nil r : good r (ret []).
Proof. split; [apply toks_inside_nil|intros ts E; injection E as <-; apply pw_nil]. Qed.

Lemma good_weaken r1 r2 res : inside r1 r2 -> good r1 res -> good r2 res.
Proof. intros Hi (H1 & H2). split; [eapply toks_inside_weaken; eauto|exact H2]. Qed.

Lemma good_none r : good r None.
Proof. split; intros ts E; discriminate. Qed.

Lemma good_delegated r : good r (Some None).
Proof. split; intros ts E; discriminate. Qed.

(* combining parts that live in pairwise disjoint ranges inside R *)
Lemma bind_all_good R (items : list (range * tres)) :
  Forall (fun p => inside (fst p) R /\ good (fst p) (snd p)) items ->
  ForallOrdPairs rdisj (map fst items) ->
  good R (bind_all (map snd items)).
Proof.
  intros HF HD. split.
  - apply bind_all_inside. apply Forall_forall. intros x Hx. apply in_map_iff in Hx as (p & <- & Hp).
    rewrite Forall_forall in HF. destruct (HF p Hp) as (Hi & Hg & _). eapply toks_inside_weaken; eauto.
  - apply bind_all_pw; [|exact HD]. eapply Forall_impl; [|exact HF]. intros p (_ & Hg). exact Hg.
Qed.

Lemma FOP_firstn {A} (R : A -> A -> Prop) n l : ForallOrdPairs R l -> ForallOrdPairs R (firstn n l).
Proof.
  intros H. revert n. induction H as [|x l Hx _ IH]; intros [|n]; cbn [firstn]; try constructor.
  - apply Forall_forall. intros y Hy. rewrite Forall_forall in Hx. apply Hx. eapply In_firstn; exact Hy.
  - apply IH.
Qed.

Lemma Forall_firstn {A} (P : A -> Prop) n l : Forall P l -> Forall P (firstn n l).
Proof. intros H. apply Forall_forall. intros x Hx. rewrite Forall_forall in H. apply H. eapply In_firstn; exact Hx. Qed.

Lemma combine_snd_firstn {A B} (cs : list A) (l : list B) : map snd (combine cs l) = firstn (length cs) l.
Proof.
  revert l. induction cs as [|c cs IH]; intros [|x l]; cbn; try reflexivity. f_equal. apply IH.
Qed.

Section StepGood.
  Variable funcs : fsigs.
  Variable vals : list (range * sexp).
  Variable rec : constraint -> sexpr -> tres.
  Variable rec_type : sexpr -> tres.
  Hypothesis Hrec : forall c e, wf_s e -> dj_s e -> good (se_rng e) (rec c e).
  Hypothesis Hrec_type : forall e, wf_s e -> dj_s e -> good (se_rng e) (rec_type e).

  Lemma tuple_like_combine cs l : tuple_like rec cs l = map (fun p => rec (fst p) (snd p)) (combine cs l).
  Proof. revert l. induction cs as [|c cs IH]; intros [|x l]; cbn [tuple_like combine map]; try reflexivity. f_equal. apply IH. Qed.

  (* children visited with per-child constraints *)
  Lemma children_good R (pairs : list (constraint * sexpr)) :
    Forall (fun p => inside (se_rng (snd p)) R /\ wf_s (snd p) /\ dj_s (snd p)) pairs ->
    ForallOrdPairs rdisj (map (fun p => se_rng (snd p)) pairs) ->
    good R (bind_all (map (fun p => rec (fst p) (snd p)) pairs)).
  Proof.
    intros HF HD.
    replace (map (fun p => rec (fst p) (snd p)) pairs)
      with (map snd (map (fun p : constraint * sexpr => (se_rng (snd p), rec (fst p) (snd p))) pairs))
      by (rewrite map_map; reflexivity).
    apply bind_all_good.
    - apply Forall_forall. intros q Hq. apply in_map_iff in Hq as (p & <- & Hp). cbn [fst snd].
      rewrite Forall_forall in HF. destruct (HF p Hp) as (Hi & Hw & Hd). split; [exact Hi|apply Hrec; assumption].
    - rewrite map_map. cbn [fst]. exact HD.
  Qed.

  Lemma same_cons_good R c l :
    Forall (fun p => inside (se_rng p) R /\ wf_s p) l -> Forall dj_s l -> ForallOrdPairs rdisj (map se_rng l) ->
    good R (bind_all (map (rec c) l)).
  Proof.
    intros HF Hd HD.
    replace (map (rec c) l) with (map (fun p => rec (fst p) (snd p)) (map (fun x => (c, x)) l)) by (rewrite map_map; reflexivity).
    apply children_good.
    - apply Forall_forall. intros q Hq. apply in_map_iff in Hq as (x & <- & Hx). cbn [snd].
      rewrite Forall_forall in HF, Hd. destruct (HF x Hx) as (Hi & Hw). split; [exact Hi|split; [exact Hw|apply Hd; exact Hx]].
    - rewrite map_map. cbn [snd]. exact HD.
  Qed.

  Lemma tuple_like_good R cs l :
    Forall (fun p => inside (se_rng p) R /\ wf_s p) l -> Forall dj_s l -> ForallOrdPairs rdisj (map se_rng l) ->
    good R (bind_all (tuple_like rec cs l)).
  Proof.
    intros HF Hd HD. rewrite tuple_like_combine. apply children_good.
    - apply Forall_forall. intros q Hq. assert (Hs : In (snd q) l).
      { apply (in_map snd) in Hq. rewrite combine_snd_firstn in Hq. eapply In_firstn; exact Hq. }
      rewrite Forall_forall in HF, Hd. destruct (HF _ Hs) as (Hi & Hw). split; [exact Hi|split; [exact Hw|apply Hd; exact Hs]].
    - replace (map (fun p : constraint * sexpr => se_rng (snd p)) (combine cs l)) with (map se_rng (map snd (combine cs l)))
        by (rewrite map_map; reflexivity).
      rewrite combine_snd_firstn, <- firstn_map. apply FOP_firstn. exact HD.
  Qed.

  Lemma good_pair_nil_l R x : good R x -> good R (bind_all [ret []; x]).
  Proof.
    intros (Hi & Hp). split.
    - apply bind_all_inside. apply Forall_cons; [apply toks_inside_nil|apply Forall_cons; [exact Hi|apply Forall_nil]].
    - cbn [bind_all]. destruct x as [[a|]|]; intros ts E; try discriminate.
      cbn in E. injection E as <-. rewrite app_nil_r. apply Hp. reflexivity.
  Qed.

  Lemma good_pair_nil_r R x : good R x -> good R (bind_all [x; ret []]).
  Proof.
    intros (Hi & Hp). split.
    - apply bind_all_inside. apply Forall_cons; [exact Hi|apply Forall_cons; [apply toks_inside_nil|apply Forall_nil]].
    - cbn [bind_all]. destruct x as [[a|]|]; intros ts E; try discriminate.
      cbn in E. injection E as <-. rewrite app_nil_r. apply Hp. reflexivity.
  Qed.

  Lemma good_two R r1 x1 r2 x2 :
    inside r1 R -> inside r2 R -> rdisj r1 r2 -> good r1 x1 -> good r2 x2 -> good R (bind_all [x1; x2]).
  Proof.
    intros H1 H2 Hd G1 G2.
    change [x1; x2] with (map snd [(r1, x1); (r2, x2)]). apply bind_all_good.
    - apply Forall_cons; [split; assumption|apply Forall_cons; [split; assumption|apply Forall_nil]].
    - cbn [map fst]. constructor; [apply Forall_cons; [exact Hd|apply Forall_nil]|constructor; [apply Forall_nil|constructor]].
  Qed.

  Ltac open_e e Hw Hd r vt n Hn Hdn :=
    destruct e as [r vt n]; inversion Hw as [? ? ? Hn]; inversion Hd as [? ? ? Hdn]; subst; cbn [se_rng se_node se_vt] in *.

  Lemma list_like_good elem e : wf_s e -> dj_s e -> good (se_rng e) (list_like rec elem e).
  Proof.
    intros Hw Hd. open_e e Hw Hd r vt n Hn Hdn. unfold list_like. cbn [se_node].
    destruct n; try apply good_nil. destruct elems as [|x xs]; [apply good_nil|].
    destruct elem as [ec|]; [|apply good_nil]. inversion Hn; subst. inversion Hdn; subst.
    apply same_cons_good; assumption.
  Qed.

  Lemma item_span_inside r kr k v : wf_item r (SItem kr k v) -> inside (range_between kr (se_rng v)) r.
  Proof.
    intros H. inversion H as [? ? ? ? (Fk & Sk & Ek) (Fv & Sv & Ev) _ _]; subst.
    unfold inside, range_between; cbn. split; [exact Fk|split; [exact Sk|exact Ev]].
  Qed.

  Lemma spans_items r (F : sitem -> tres) items :
    Forall (wf_item r) items -> Forall dj_item items -> ForallOrdPairs rdisj (map item_span items) ->
    (forall i, In i items -> wf_item r i -> dj_item i -> good (item_span i) (F i)) ->
    good r (bind_all (map F items)).
  Proof.
    intros HF Hd HD HG.
    replace (map F items) with (map snd (map (fun i => (item_span i, F i)) items)) by (rewrite map_map; reflexivity).
    apply bind_all_good.
    - apply Forall_forall. intros q Hq. apply in_map_iff in Hq as (i & <- & Hi). cbn [fst snd].
      rewrite Forall_forall in HF, Hd. split.
      + destruct i as [kr k v]. apply (item_span_inside r kr k v). apply HF; exact Hi.
      + apply HG; [exact Hi|apply HF; exact Hi|apply Hd; exact Hi].
    - rewrite map_map. cbn [fst]. exact HD.
  Qed.

  Lemma map_tokens_good elem interp e : wf_s e -> dj_s e -> good (se_rng e) (map_tokens rec elem interp e).
  Proof.
    intros Hw Hd. open_e e Hw Hd r vt n Hn Hdn. unfold map_tokens. cbn [se_node].
    destruct n; try apply good_nil. destruct items as [|i0 is0]; [apply good_nil|].
    destruct elem as [ec|]; [|apply good_nil].
    inversion Hn as [| | | | |? ? HF| | | | | | | |]; subst. inversion Hdn as [| | | | |? HD HDi| | | | | | | |]; subst.
    apply spans_items; try assumption. intros i Hin Hwi Hdi.
    destruct i as [kr k v]. inversion Hwi as [? ? ? ? Hk Hv Hwv Hp]; subst.
    inversion Hdi as [? ? ? Hkv Hks Hvs Hdv Hdp]; subst. cbn [item_span].
    destruct k as [name|pe|].
    - apply (good_two _ kr _ (se_rng v)); try assumption; [apply good_ret_single, inside_refl|apply Hrec; assumption].
    - destruct interp; [|apply good_nil]. destruct (Hp pe eq_refl) as (_ & Hwp). destruct (Hdp pe eq_refl) as (Hpk & Hdpe).
      apply (good_two _ (se_rng pe) _ (se_rng v)); try assumption.
      + eapply inside_trans; eassumption.
      + eapply rdisj_inside; [exact Hkv|exact Hpk|apply inside_refl].
      + apply Hrec; assumption.
      + apply Hrec; assumption.
    - apply good_nil.
  Qed.

  Lemma object_tokens_good ats interp e : wf_s e -> dj_s e -> good (se_rng e) (object_tokens rec ats interp e).
  Proof.
    intros Hw Hd. open_e e Hw Hd r vt n Hn Hdn. unfold object_tokens. cbn [se_node].
    destruct n; try apply good_nil. destruct items as [|i0 is0]; [apply good_nil|].
    destruct ats as [|a0 as0]; [apply good_nil|].
    inversion Hn as [| | | | |? ? HF| | | | | | | |]; subst. inversion Hdn as [| | | | |? HD HDi| | | | | | | |]; subst.
    apply spans_items; try assumption. intros i Hin Hwi Hdi.
    destruct i as [kr k v]. inversion Hwi as [? ? ? ? Hk Hv Hwv Hp]; subst.
    inversion Hdi as [? ? ? Hkv Hks Hvs Hdv Hdp]; subst. cbn [item_span].
    destruct k as [name|pe|]; cbn [key_paren_tokens].
    - apply good_pair_nil_l. destruct (alookup name (a0 :: as0)) as [c|]; [|apply good_nil].
      apply (good_two _ kr _ (se_rng v)); try assumption; [apply good_ret_single, inside_refl|apply Hrec; assumption].
    - apply good_pair_nil_r. destruct interp; [|apply good_nil].
      destruct (Hp pe eq_refl) as (_ & Hwp). destruct (Hdp pe eq_refl) as (Hpk & Hdpe).
      eapply good_weaken; [|apply Hrec; assumption]. eapply inside_trans; eassumption.
    - apply good_pair_nil_l. apply good_nil.
  Qed.

  Lemma own_good r t : good r (ret [tok t r]).
  Proof. apply good_ret_single, inside_refl. Qed.

  Lemma literal_type_good t e : wf_s e -> dj_s e -> good (se_rng e) (literal_type_tokens rec t e).
  Proof.
    intros Hw Hd. unfold literal_type_tokens.
    set (typ := if is_dyn t then match se_vt e with Some t' => t' | None => t end else t).
    assert (Hgen : good (se_rng e)
              (if is_prim typ
               then match se_node e with
                    | NLit lt => if lit_convertible lt typ
                                 then match lt with
                                      | TBool => ret [tok "bool" (se_rng e)] | TNum => ret [tok "number" (se_rng e)]
                                      | TStr => ret [tok "string" (se_rng e)] | _ => ret [] end
                                 else ret []
                    | _ => ret [] end
               else match typ with
                    | TList el | TSet el => match se_node e with NTuple _ => list_like rec (Some (CLitType el false)) e | _ => ret [] end
                    | TTuple ts => match se_node e with
                                   | NTuple ((_ :: _) as elems) =>
                                       match ts with [] => ret [] | _ => bind_all (tuple_like rec (map (fun x => CLitType x false) ts) elems) end
                                   | _ => ret [] end
                    | TMap el => map_tokens rec (Some (CLitType el false)) false e
                    | TObject ats => object_tokens rec (lit_attrs ats) false e
                    | _ => ret [] end)).
    { destruct (is_prim typ).
      - destruct (se_node e); try apply good_nil.
        destruct (lit_convertible t0 typ); [|apply good_nil].
        destruct t0; try apply good_nil; apply own_good.
      - destruct typ; try apply good_nil.
        + destruct (se_node e) eqn:En; try apply good_nil. apply list_like_good; assumption.
        + destruct (se_node e) eqn:En; try apply good_nil. apply list_like_good; assumption.
        + apply map_tokens_good; assumption.
        + open_e e Hw Hd r vt n Hn Hdn.
          destruct n; try apply good_nil. destruct elems as [|x xs]; [apply good_nil|].
          destruct ts; [apply good_nil|]. inversion Hn; subst. inversion Hdn; subst.
          apply tuple_like_good; assumption.
        + apply object_tokens_good; assumption. }
    destruct typ; try exact Hgen.
    destruct (se_node e); try exact Hgen. destruct lit; [apply own_good|exact Hgen].
  Qed.

  Lemma step_tokens_in s y : In y (step_tokens s) -> inside (vk_rng y) (step_rng s).
  Proof.
    intros H. pose proof (step_tokens_inside s (step_rng s) (inside_refl _)) as HF.
    rewrite Forall_forall in HF. apply HF; exact H.
  Qed.

  Lemma steps_pw steps : ForallOrdPairs rdisj (map step_rng steps) -> pw (flat_map step_tokens steps).
  Proof.
    induction steps as [|s l IH]; intros H; cbn [flat_map]; [apply pw_nil|].
    cbn [map] in H. inversion H as [|? ? Hs Hl]; subst.
    apply pw_app.
    - destruct s; cbn [step_tokens]; try apply pw_single; try apply pw_nil; unfold idx_token; destruct (Z.ltb _ _); first [apply pw_single|apply pw_nil].
    - apply IH; exact Hl.
    - intros x y Hx Hy. apply in_flat_map in Hy as (s' & Hs' & Hy).
      unfold tdisj. eapply rdisj_inside; [|apply step_tokens_in; exact Hx|apply step_tokens_in; exact Hy].
      rewrite Forall_forall in Hs. apply Hs. apply in_map. exact Hs'.
  Qed.

  Lemma reference_good e : wf_s e -> dj_s e -> good (se_rng e) (ret (reference_tokens e)).
  Proof.
    intros Hw Hd. split; [apply toks_inside_ret, reference_tokens_inside; exact Hw|].
    intros ts E. injection E as <-. open_e e Hw Hd r vt n Hn Hdn. unfold reference_tokens. cbn [se_node].
    destruct n; try apply pw_nil. destruct resolved; [|apply pw_nil]. inversion Hdn; subst. apply steps_pw. assumption.
  Qed.

  Lemma function_good e : wf_s e -> dj_s e -> good (se_rng e) (function_tokens funcs rec e).
  Proof.
    intros Hw Hd. open_e e Hw Hd r vt n Hn Hdn. unfold function_tokens. cbn [se_node].
    destruct n; try apply good_nil.
    inversion Hn as [| | | | | | | | | | | |? ? ? ? Hnr HF|]; subst. inversion Hdn as [| | | | | | | | | | | |? ? ? HD HDa|]; subst.
    destruct (alookup name funcs) as [[params varp]|]; [|apply good_nil].
    assert (Hname : good name_rng (ret [tok "function-name" name_rng])) by apply own_good.
    (* the arguments actually visited: a prefix of the written ones, each with the constraint of its parameter *)
    assert (Hargs : forall ps, exists pairs : list (constraint * sexpr),
               (fix go (ps : list ty) (l : list sexpr) : list tres :=
                  match l with
                  | [] => []
                  | a :: r0 => match ps with
                               | p :: ps' => rec (CAny p false) a :: go ps' r0
                               | [] => match varp with Some vp => rec (CAny vp false) a :: go [] r0 | None => [] end
                               end
                  end) ps args = map (fun p => rec (fst p) (snd p)) pairs /\
               exists n, map snd pairs = firstn n args).
    { clear. induction args as [|a l IH]; intros ps.
      - exists []. split; [reflexivity|exists 0%nat; reflexivity].
      - destruct ps as [|p ps'].
        + destruct varp as [vp|].
          * destruct (IH []) as (pairs & E & n & En). exists ((CAny vp false, a) :: pairs). split; [cbn [map fst snd]; f_equal; exact E|].
            exists (S n). cbn [map snd firstn]. f_equal. exact En.
          * exists []. split; [reflexivity|exists 0%nat; reflexivity].
        + destruct (IH ps') as (pairs & E & n & En). exists ((CAny p false, a) :: pairs). split; [cbn [map fst snd]; f_equal; exact E|].
          exists (S n). cbn [map snd firstn]. f_equal. exact En. }
    assert (Hall : forall ps, good r (bind_all (ret [tok "function-name" name_rng] ::
               (fix go (ps : list ty) (l : list sexpr) : list tres :=
                  match l with
                  | [] => []
                  | a :: r0 => match ps with
                               | p :: ps' => rec (CAny p false) a :: go ps' r0
                               | [] => match varp with Some vp => rec (CAny vp false) a :: go [] r0 | None => [] end
                               end
                  end) ps args))).
    { intros ps. destruct (Hargs ps) as (pairs & -> & n & En).
      replace (ret [tok "function-name" name_rng] :: map (fun p => rec (fst p) (snd p)) pairs)
        with (map snd ((name_rng, ret [tok "function-name" name_rng]) :: map (fun p : constraint * sexpr => (se_rng (snd p), rec (fst p) (snd p))) pairs))
        by (cbn [map snd]; rewrite map_map; reflexivity).
      apply bind_all_good.
      - apply Forall_cons; [split; [exact Hnr|exact Hname]|].
        apply Forall_forall. intros q Hq. apply in_map_iff in Hq as (p & <- & Hp). cbn [fst snd].
        assert (Hs : In (snd p) args). { apply (in_map snd) in Hp. rewrite En in Hp. eapply In_firstn; exact Hp. }
        rewrite Forall_forall in HF, HDa. destruct (HF _ Hs) as (Hi & Hwp). split; [exact Hi|apply Hrec; [exact Hwp|apply HDa; exact Hs]].
      - cbn [map fst]. rewrite map_map. cbn [fst].
        replace (map (fun x : constraint * sexpr => se_rng (snd x)) pairs) with (map se_rng (map snd pairs)) by (rewrite map_map; reflexivity).
        rewrite En, <- firstn_map. change (name_rng :: firstn n (map se_rng args)) with (firstn (S n) (name_rng :: map se_rng args)).
        apply FOP_firstn. exact HD. }
    destruct params as [|p0 ps0].
    - destruct varp as [vp|]; [|eapply good_weaken; [exact Hnr|exact Hname]]. apply Hall.
    - apply Hall.
  Qed.

  Lemma bind_all_nil_cons l : bind_all (ret [] :: l) = bind_all l.
  Proof. cbn [bind_all]. destruct (bind_all l) as [[b|]|]; reflexivity. Qed.

  Lemma bind_all_cons_congr x l1 l2 : bind_all l1 = bind_all l2 -> bind_all (x :: l1) = bind_all (x :: l2).
  Proof. intros H. cbn [bind_all]. rewrite H. reflexivity. Qed.

  Lemma pairs_good R (pairs : list (constraint * sexpr)) :
    Forall (fun p => inside (se_rng (snd p)) R /\ wf_s (snd p)) pairs -> Forall dj_s (map snd pairs) ->
    ForallOrdPairs rdisj (map se_rng (map snd pairs)) ->
    good R (bind_all (map (fun p => rec (fst p) (snd p)) pairs)).
  Proof.
    intros HF Hd HD. apply children_good.
    - apply Forall_forall. intros p Hp. rewrite Forall_forall in HF, Hd. destruct (HF p Hp) as (Hi & Hw).
      split; [exact Hi|split; [exact Hw|apply Hd; apply in_map; exact Hp]].
    - rewrite map_map in HD. exact HD.
  Qed.

  Lemma any_simple_good t skip e : wf_s e -> dj_s e -> good (se_rng e) (any_simple funcs rec t skip e).
  Proof.
    intros Hw Hd. unfold any_simple.
    assert (Hfb : good (se_rng e)
              match reference_tokens e with
              | (_ :: _) as ts => ret ts
              | [] => match function_tokens funcs rec e with
                      | Some (Some []) => literal_type_tokens rec t e
                      | x => x end
              end).
    { pose proof (reference_good e Hw Hd) as Hr. destruct (reference_tokens e) as [|t0 l0].
      - pose proof (function_good e Hw Hd) as Hf. destruct (function_tokens funcs rec e) as [[[|v l]|]|].
        + apply literal_type_good; assumption.
        + exact Hf.
        + apply good_delegated.
        + apply good_none.
      - exact Hr. }
    open_e e Hw Hd r vt n Hn Hdn.
    destruct n as [root steps res|t0|lit parts|w|elems|items|rt p1 p2 l0 r0|rt p x|x|c a b|coll key val cond|k|name nrng args|];
      try exact Hfb; inversion Hn; subst; inversion Hdn; subst.
    - (* template *)
      destruct lit.
      + apply literal_type_good; assumption.
      + apply same_cons_good; assumption.
    - eapply good_weaken; [eassumption|apply Hrec; assumption].
    - destruct (prim_conv rt t); [|apply good_nil].
      apply (good_two _ (se_rng l0) _ (se_rng r0)); try assumption; apply Hrec; assumption.
    - destruct (prim_conv rt t); [|apply good_nil]. eapply good_weaken; [eassumption|apply Hrec; assumption].
    - eapply good_weaken; [eassumption|apply Hrec; assumption].
    - (* conditional *)
      change [rec (CAny TBool false) c; rec (CAny t skip) a; rec (CAny t skip) b]
        with (map (fun p => rec (fst p) (snd p)) [(CAny TBool false, c); (CAny t skip, a); (CAny t skip, b)]).
      apply pairs_good.
      + repeat (apply Forall_cons; [split; assumption|]). apply Forall_nil.
      + repeat (apply Forall_cons; [assumption|]). apply Forall_nil.
      + assumption.
    - (* for *)
      destruct (is_iterable t); [|exact Hfb].
      destruct (match key with Some _ => iter_key_type t | None => Some TDyn end) as [kt|]; [|exact Hfb].
      destruct (iter_val_type t) as [vt'|]; [|exact Hfb].
      match goal with H : Forall dj_s _ |- _ => rename H into HDs end.
      match goal with H : ForallOrdPairs rdisj _ |- _ => rename H into HDr end.
      assert (Hk : forall x, key = Some x -> inside (se_rng x) r /\ wf_s x) by assumption.
      assert (Hc : forall x, cond = Some x -> inside (se_rng x) r /\ wf_s x) by assumption.
      destruct key as [k|]; destruct cond as [cd|]; cbn [opt_list app] in HDs, HDr.
      + destruct (Hk k eq_refl), (Hc cd eq_refl).
        change [rec (CAny t skip) coll; rec (CAny kt false) k; rec (CAny vt' false) val; rec (CAny TBool false) cd]
          with (map (fun p => rec (fst p) (snd p)) [(CAny t skip, coll); (CAny kt false, k); (CAny vt' false, val); (CAny TBool false, cd)]).
        apply pairs_good; [repeat (apply Forall_cons; [split; assumption|]); apply Forall_nil|exact HDs|exact HDr].
      + destruct (Hk k eq_refl).
        rewrite (bind_all_cons_congr _ _ _ (bind_all_cons_congr _ _ _ (bind_all_cons_congr _ [ret []] [] (bind_all_nil_cons [])))).
        change [rec (CAny t skip) coll; rec (CAny kt false) k; rec (CAny vt' false) val]
          with (map (fun p => rec (fst p) (snd p)) [(CAny t skip, coll); (CAny kt false, k); (CAny vt' false, val)]).
        apply pairs_good; [repeat (apply Forall_cons; [split; assumption|]); apply Forall_nil|exact HDs|exact HDr].
      + destruct (Hc cd eq_refl).
        rewrite (bind_all_cons_congr _ _ _ (bind_all_nil_cons _)).
        change [rec (CAny t skip) coll; rec (CAny vt' false) val; rec (CAny TBool false) cd]
          with (map (fun p => rec (fst p) (snd p)) [(CAny t skip, coll); (CAny vt' false, val); (CAny TBool false, cd)]).
        apply pairs_good; [repeat (apply Forall_cons; [split; assumption|]); apply Forall_nil|exact HDs|exact HDr].
      + rewrite (bind_all_cons_congr _ _ _ (bind_all_nil_cons _)).
        rewrite (bind_all_cons_congr _ _ _ (bind_all_cons_congr _ [ret []] [] (bind_all_nil_cons []))).
        change [rec (CAny t skip) coll; rec (CAny vt' false) val]
          with (map (fun p => rec (fst p) (snd p)) [(CAny t skip, coll); (CAny vt' false, val)]).
        apply pairs_good; [repeat (apply Forall_cons; [split; assumption|]); apply Forall_nil|exact HDs|exact HDr].
    - eapply good_weaken; [eassumption|apply Hrec; assumption].
  Qed.

  Lemma any_tokens_good t skip e : wf_s e -> dj_s e -> good (se_rng e) (any_tokens funcs rec t skip e).
  Proof.
    intros Hw Hd. unfold any_tokens. pose proof (any_simple_good t skip e Hw Hd) as Hs.
    destruct t; try exact Hs; destruct (se_node e) eqn:En; try exact Hs.
    - apply list_like_good; assumption.
    - apply list_like_good; assumption.
    - apply map_tokens_good; assumption.
    - open_e e Hw Hd r vt n Hn Hdn. subst n.
      destruct elems as [|x xs]; [apply good_nil|]. destruct ts as [|t0 ts0]; [apply good_nil|].
      inversion Hn; subst. inversion Hdn; subst. apply tuple_like_good; assumption.
    - apply object_tokens_good; assumption.
  Qed.

  Lemma one_of_good cs e : wf_s e -> dj_s e -> good (se_rng e) (one_of_tokens rec cs e).
  Proof.
    intros Hw Hd. induction cs as [|c r IH]; cbn [one_of_tokens]; [apply good_nil|].
    pose proof (Hrec c e Hw Hd) as Hc. destruct (rec c e) as [[[|v l]|]|]; try exact Hc. exact IH.
  Qed.

  (* key and value ranges of the items of an object, in order: pairwise disjoint *)
  Lemma kv_ranges_disjoint items :
    ForallOrdPairs rdisj (map item_span items) -> Forall dj_item items ->
    ForallOrdPairs rdisj (flat_map (fun i => match i with SItem kr _ v => [kr; se_rng v] end) items).
  Proof.
    induction items as [|i l IH]; intros HD Hd; cbn [flat_map]; [constructor|].
    cbn [map] in HD. inversion HD as [|? ? Hs Hl]; subst. inversion Hd as [|? ? Hi Hdl]; subst.
    destruct i as [kr k v]. inversion Hi as [? ? ? Hkv Hks Hvs _ _]; subst. cbn [app].
    assert (Hrest : forall y, In y (flat_map (fun i => match i with SItem kr _ v => [kr; se_rng v] end) l) ->
                    exists j, In j l /\ inside y (item_span j)).
    { intros y Hy. apply in_flat_map in Hy as (j & Hj & Hy). exists j. split; [exact Hj|].
      rewrite Forall_forall in Hdl. specialize (Hdl j Hj). destruct j as [kr' k' v']. inversion Hdl; subst. cbn [item_span].
      destruct Hy as [<-|[<-|[]]]; assumption. }
    constructor.
    - apply Forall_cons; [exact Hkv|]. apply Forall_forall. intros y Hy. destruct (Hrest y Hy) as (j & Hj & Hin).
      rewrite Forall_forall in Hs. eapply rdisj_inside; [apply Hs; apply in_map; exact Hj|exact Hks|exact Hin].
    - constructor.
      + apply Forall_forall. intros y Hy. destruct (Hrest y Hy) as (j & Hj & Hin).
        rewrite Forall_forall in Hs. eapply rdisj_inside; [apply Hs; apply in_map; exact Hj|exact Hvs|exact Hin].
      + apply IH; assumption.
  Qed.

  Lemma type_decl_good e : wf_s e -> dj_s e -> good (se_rng e) (type_decl_tokens rec_type e).
  Proof.
    intros Hw Hd. open_e e Hw Hd r vt n Hn Hdn. unfold type_decl_tokens. cbn [se_node].
    destruct n as [root steps res|t0|lit parts|w|elems|items|rt p1 p2 l0 r0|rt p x|x|c a b|coll key val cond|k|name nrng args|];
      try apply good_nil.
    - destruct steps as [|s0 [|s1 ss]]; try apply good_nil.
      destruct (is_prim_type_name root); [apply own_good|apply good_nil].
    - inversion Hn as [| | | | | | | | | | | |? ? ? ? Hnr HF|]; subst. inversion Hdn as [| | | | | | | | | | | |? ? ? HD HDa|]; subst.
      assert (Hname : good nrng (ret [tok "type-complex" nrng])) by apply own_good.
      destruct (is_elem_type_name name).
      { destruct args as [|a0 [|a1 as1]]; [eapply good_weaken; [exact Hnr|exact Hname]| |apply good_nil].
        inversion HF as [|? ? (Hi & Hwa) _]; subst. inversion HDa as [|? ? Hda _]; subst.
        cbn [map] in HD. inversion HD as [|? ? Hnd _]; subst. inversion Hnd as [|? ? Hna _]; subst.
        apply (good_two _ nrng _ (se_rng a0)); try assumption. apply Hrec_type; assumption. }
      destruct (String.eqb name "object").
      { destruct args as [|a0 [|a1 as1]]; try (eapply good_weaken; [exact Hnr|exact Hname]).
        inversion HF as [|? ? (Hi & Hwa) _]; subst. inversion HDa as [|? ? Hda _]; subst.
        cbn [map] in HD. inversion HD as [|? ? Hnd _]; subst. inversion Hnd as [|? ? Hna _]; subst.
        destruct a0 as [ra va na]. inversion Hwa as [? ? ? Hna0]; subst. inversion Hda as [? ? ? Hdna0]; subst. cbn [se_node se_rng] in *.
        destruct na; try apply good_nil.
        inversion Hna0 as [| | | | |? ? HFi| | | | | | | |]; subst. inversion Hdna0 as [| | | | |? HDs HDi| | | | | | | |]; subst.
        (* the walk over the items: a prefix of them, as (range, result) entries *)
        assert (Hgo : exists entries : list (range * tres),
                  (fix go (l : list sitem) : list tres :=
                     match l with
                     | [] => []
                     | SItem krng (SKRaw _) v :: r => ret [tok "attr-name" krng] :: rec_type v :: go r
                     | _ => []
                     end) items = map snd entries /\
                  Forall (fun p => inside (fst p) ra /\ good (fst p) (snd p)) entries /\
                  exists m, map fst entries = firstn m (flat_map (fun i => match i with SItem kr _ v => [kr; se_rng v] end) items)).
        { clear HDs Hna0 Hdna0 Hwa Hda Hw Hd Hn Hdn HF HDa HD Hnd.
          induction items as [|i l IH]; [exists []; split; [reflexivity|split; [constructor|exists 0%nat; reflexivity]]|].
          inversion HFi as [|? ? Hwi Hwl]; subst. inversion HDi as [|? ? Hdi Hdl]; subst.
          destruct i as [kr k v]. inversion Hwi as [? ? ? ? Hk Hv Hwv Hp]; subst. inversion Hdi as [? ? ? Hkv Hks Hvs Hdv Hdp]; subst.
          destruct k as [kn|pe|]; try (exists []; split; [reflexivity|split; [constructor|exists 0%nat; reflexivity]]).
          destruct (IH Hwl Hdl) as (entries & E & HFe & m & Em).
          exists ((kr, ret [tok "attr-name" kr]) :: (se_rng v, rec_type v) :: entries).
          split; [cbn [map snd]; f_equal; f_equal; exact E|]. split.
          - apply Forall_cons; [split; [exact Hk|apply own_good]|]. apply Forall_cons; [split; [exact Hv|apply Hrec_type; assumption]|exact HFe].
          - exists (S (S m)). cbn [map fst flat_map app firstn]. f_equal. f_equal. exact Em. }
        destruct Hgo as (entries & -> & HFe & m & Em).
        replace (ret [tok "type-complex" nrng] :: map snd entries) with (map snd ((nrng, ret [tok "type-complex" nrng]) :: entries)) by reflexivity.
        apply bind_all_good.
        - apply Forall_cons; [split; [exact Hnr|exact Hname]|].
          eapply Forall_impl; [|exact HFe]. intros p (Hip & Hgp). split; [eapply inside_trans; eassumption|exact Hgp].
        - cbn [map fst]. rewrite Em. constructor.
          + apply Forall_forall. intros y Hy. apply In_firstn in Hy.
            assert (Hyin : inside y ra).
            { apply in_flat_map in Hy as (j & Hj & Hy). rewrite Forall_forall in HFi. specialize (HFi j Hj).
              destruct j as [kr' k' v']. inversion HFi; subst. destruct Hy as [<-|[<-|[]]]; assumption. }
            eapply rdisj_inside; [exact Hna|apply inside_refl|exact Hyin].
          + apply FOP_firstn. apply kv_ranges_disjoint; assumption. }
      destruct (String.eqb name "tuple"); [|apply good_nil].
      destruct args as [|a0 [|a1 as1]]; try (eapply good_weaken; [exact Hnr|exact Hname]).
      inversion HF as [|? ? (Hi & Hwa) _]; subst. inversion HDa as [|? ? Hda _]; subst.
      cbn [map] in HD. inversion HD as [|? ? Hnd _]; subst. inversion Hnd as [|? ? Hna _]; subst.
      destruct a0 as [ra va na]. inversion Hwa as [? ? ? Hna0]; subst. inversion Hda as [? ? ? Hdna0]; subst. cbn [se_node se_rng] in *.
      destruct na; try apply good_nil.
      inversion Hna0 as [| | | |? ? HFe| | | | | | | | |]; subst. inversion Hdna0 as [| | | |? HDs HDe| | | | | | | | |]; subst.
      replace (ret [tok "type-complex" nrng] :: map rec_type elems)
        with (map snd ((nrng, ret [tok "type-complex" nrng]) :: map (fun x => (se_rng x, rec_type x)) elems))
        by (cbn [map snd]; rewrite map_map; reflexivity).
      apply bind_all_good.
      + apply Forall_cons; [split; [exact Hnr|exact Hname]|].
        apply Forall_forall. intros q Hq. apply in_map_iff in Hq as (x & <- & Hx). cbn [fst snd].
        rewrite Forall_forall in HFe, HDe. destruct (HFe x Hx) as (Hxi & Hxw).
        split; [eapply inside_trans; eassumption|apply Hrec_type; [exact Hxw|apply HDe; exact Hx]].
      + cbn [map fst]. rewrite map_map. cbn [fst]. constructor; [|exact HDs].
        apply Forall_forall. intros y Hy. apply in_map_iff in Hy as (x & <- & Hx).
        rewrite Forall_forall in HFe. destruct (HFe x Hx) as (Hxi & _).
        eapply rdisj_inside; [exact Hna|apply inside_refl|exact Hxi].
  Qed.

  (* entries for a prefix of the children, each living in its child's range *)
  Lemma prefix_entries_good R (l : list sexpr) (entries : list (range * tres)) m :
    Forall (fun p => inside (se_rng p) R /\ wf_s p) l -> ForallOrdPairs rdisj (map se_rng l) ->
    map fst entries = firstn m (map se_rng l) ->
    Forall (fun p => good (fst p) (snd p)) entries ->
    good R (bind_all (map snd entries)).
  Proof.
    intros HF HD Em Hg. apply bind_all_good.
    - apply Forall_forall. intros p Hp. split; [|rewrite Forall_forall in Hg; apply Hg; exact Hp].
      assert (Hin : In (fst p) (firstn m (map se_rng l))) by (rewrite <- Em; apply in_map; exact Hp).
      apply In_firstn in Hin. apply in_map_iff in Hin as (x & <- & Hx). rewrite Forall_forall in HF. apply HF; exact Hx.
    - rewrite Em. apply FOP_firstn. exact HD.
  Qed.

  Lemma literal_value_good cv t e : wf_s e -> dj_s e -> good (se_rng e) (literal_value_tokens vals rec cv t e).
  Proof.
    intros Hw Hd. unfold literal_value_tokens.
    set (typ := if is_dyn t then match se_vt e with Some t' => t' | None => t end else t).
    destruct typ; try apply good_nil.
    - destruct (se_node e); try apply good_nil. destruct (value_of vals e); [|apply good_nil].
      destruct (sexp_eqb cv s); [apply own_good|apply good_nil].
    - destruct (se_node e); try apply good_nil. destruct (value_of vals e); [|apply good_nil].
      destruct (sexp_eqb cv s); [apply own_good|apply good_nil].
    - destruct (se_node e); try apply good_nil. destruct (value_of vals e); [|apply good_nil].
      destruct (sexp_eqb cv s && (lit || all_string_parts parts)); [apply own_good|apply good_nil].
    - (* list *)
      open_e e Hw Hd r vt n Hn Hdn. destruct n; try apply good_nil.
      inversion Hn as [| | | |? ? HF| | | | | | | | |]; subst. inversion Hdn as [| | | |? HD HDe| | | | | | | | |]; subst.
      assert (Hgo : forall vs, exists (entries : list (range * tres)) m,
                (fix go (vs : list sexp) (l : list sexpr) : list tres :=
                   match vs, l with
                   | v :: vs', x :: l' =>
                       (match value_of vals x with
                        | Some xv => if sexp_eqb v xv then rec (CLitValue v (val_type v) false) x else ret []
                        | None => ret [] end) :: go vs' l'
                   | _, _ => [] end) vs elems = map snd entries /\
                map fst entries = firstn m (map se_rng elems) /\ Forall (fun p => good (fst p) (snd p)) entries).
      { clear HD Hn Hdn Hw Hd. induction elems as [|x l IH]; intros vs.
        - exists [], 0%nat. destruct vs; split; try reflexivity; split; try reflexivity; constructor.
        - destruct vs as [|v vs']; [exists [], 0%nat; split; [reflexivity|split; [reflexivity|constructor]]|].
          inversion HF as [|? ? (Hi & Hwx) Hl]; subst. inversion HDe as [|? ? Hdx Hdl]; subst.
          destruct (IH Hl Hdl vs') as (entries & m & E & Em & Hg).
          exists ((se_rng x, match value_of vals x with
                             | Some xv => if sexp_eqb v xv then rec (CLitValue v (val_type v) false) x else ret []
                             | None => ret [] end) :: entries), (S m).
          split; [cbn [map snd]; f_equal; exact E|]. split; [cbn [map fst firstn]; f_equal; exact Em|].
          apply Forall_cons; [|exact Hg]. cbn [fst snd].
          destruct (value_of vals x); [|apply good_nil]. destruct (sexp_eqb v s); [apply Hrec; assumption|apply good_nil]. }
      destruct (Hgo (val_elems cv)) as (entries & m & -> & Em & Hg).
      eapply prefix_entries_good; eassumption.
    - (* set *)
      open_e e Hw Hd r vt n Hn Hdn. destruct n; try apply good_nil.
      inversion Hn as [| | | |? ? HF| | | | | | | | |]; subst. inversion Hdn as [| | | |? HD HDe| | | | | | | | |]; subst.
      set (F := fun x => match value_of vals x with
                         | Some xv => if ty_eqb typ (val_type xv) && existsb (sexp_eqb xv) (val_elems cv)
                                      then rec (CLitValue xv (val_type xv) false) x else ret []
                         | None => ret [] end).
      replace (map F (firstn (length (val_elems cv)) elems))
        with (map snd (map (fun x => (se_rng x, F x)) (firstn (length (val_elems cv)) elems))) by (rewrite map_map; reflexivity).
      eapply (prefix_entries_good r elems _ (length (val_elems cv))); try eassumption.
      + rewrite map_map. cbn [fst]. rewrite firstn_map. reflexivity.
      + apply Forall_forall. intros q Hq. apply in_map_iff in Hq as (x & <- & Hx). cbn [fst snd]. apply In_firstn in Hx.
        unfold F. destruct (value_of vals x); [|apply good_nil].
        destruct (ty_eqb typ (val_type s) && existsb (sexp_eqb s) (val_elems cv)); [|apply good_nil].
        rewrite Forall_forall in HF, HDe. destruct (HF x Hx). apply Hrec; [assumption|apply HDe; exact Hx].
    - (* map *)
      open_e e Hw Hd r vt n Hn Hdn. destruct n; try apply good_nil.
      inversion Hn as [| | | | |? ? HF| | | | | | | |]; subst. inversion Hdn as [| | | | |? HD HDi| | | | | | | |]; subst.
      apply spans_items; try assumption. intros i Hin Hwi Hdi.
      destruct i as [kr k v]. inversion Hwi as [? ? ? ? Hk Hv Hwv Hp]; subst.
      inversion Hdi as [? ? ? Hkv Hks Hvs Hdv Hdp]; subst. cbn [item_span].
      destruct k as [kn|pe|]; try apply good_nil.
      destruct (alookup kn (val_entries cv)) as [mv|]; [|apply good_nil].
      apply (good_two _ kr _ (se_rng v)); try assumption; [apply own_good|].
      destruct (value_of vals v); [|apply good_nil]. destruct (sexp_eqb mv s); [apply Hrec; assumption|apply good_nil].
    - (* tuple *)
      open_e e Hw Hd r vt n Hn Hdn. destruct n; try apply good_nil. destruct elems as [|x xs]; [apply good_nil|].
      destruct ts; [apply good_nil|]. inversion Hn; subst. inversion Hdn; subst. apply tuple_like_good; assumption.
    - apply object_tokens_good; assumption.
  Qed.

  Lemma step_tokens_for_good c e : wf_s e -> dj_s e -> good (se_rng e) (step_tokens_for funcs vals rec rec_type c e).
  Proof.
    intros Hw Hd. destruct c as [t s|t s|v t d|k n|s t n a| |el mn mx|el mn mx|es|el n i mn mx|ats nl n i|cs]; cbn [step_tokens_for].
    - apply any_tokens_good; assumption.
    - apply literal_type_good; assumption.
    - apply literal_value_good; assumption.
    - destruct (se_node e); try apply good_nil. destruct steps as [|s0 [|s1 ss]]; try apply good_nil.
      destruct (String.eqb root k); [apply own_good|apply good_nil].
    - apply reference_good; assumption.
    - apply type_decl_good; assumption.
    - apply list_like_good; assumption.
    - apply list_like_good; assumption.
    - open_e e Hw Hd r vt nd Hn Hdn. destruct nd; try apply good_nil. destruct elems as [|x xs]; [apply good_nil|].
      destruct es; [apply good_nil|]. inversion Hn; subst. inversion Hdn; subst. apply tuple_like_good; assumption.
    - apply map_tokens_good; assumption.
    - apply object_tokens_good; assumption.
    - apply one_of_good; assumption.
  Qed.
End StepGood.

Theorem type_tokens_good funcs fuel : forall e, wf_s e -> dj_s e -> good (se_rng e) (type_tokens funcs fuel e).
Proof.
  induction fuel as [|n IH]; intros e Hw Hd; [apply good_none|].
  cbn [type_tokens]. apply type_decl_good; [exact IH|exact Hw|exact Hd].
Qed.

(* the tokens of a value are pairwise disjoint (and inside the value), for every constraint, at any depth *)
Theorem value_tokens_good funcs vals fuel : forall c e, wf_s e -> dj_s e -> good (se_rng e) (value_tokens funcs vals fuel c e).
Proof.
  induction fuel as [|n IH]; intros c e Hw Hd; [apply good_none|].
  cbn [value_tokens]. apply step_tokens_for_good; [exact IH|apply type_tokens_good|exact Hw|exact Hd].
Qed.

Theorem value_tokens_pairwise_disjoint funcs vals fuel c e ts :
  wf_s e -> dj_s e -> value_tokens funcs vals fuel c e = Some (Some ts) ->
  ForallOrdPairs (fun x y => rdisj (vk_rng x) (vk_rng y)) ts.
Proof. intros Hw Hd H. exact (proj2 (value_tokens_good funcs vals fuel c e Hw Hd) ts H). Qed.

(* the hypotheses are satisfiable and the result is not empty: attr = ["a", f(1, true)] *)
Definition rr (a b : Z) : range :=
  {| r_file := "main.tf"; r_start := {| p_line := 1; p_col := a + 1; p_byte := a |}; r_end := {| p_line := 1; p_col := b + 1; p_byte := b |} |}.
Definition sample_call : sexpr :=
  SE (rr 13 23) None (NCall "f" (rr 13 14) [SE (rr 15 16) (Some TNum) (NLit TNum); SE (rr 18 22) (Some TBool) (NLit TBool)]).
Definition sample_value : sexpr :=
  SE (rr 7 24) None (NTuple [SE (rr 8 11) (Some TStr) (NTemplate true [SE (rr 9 10) (Some TStr) (NLit TStr)]); sample_call]).

Example value_tokens_disjoint_applies :
  exists ts, value_tokens [("f", ([TNum; TBool], None))] [] 10 (CAny (TList TStr) false) sample_value = Some (Some ts) /\
             map vk_type ts = ["string"; "function-name"; "number"; "bool"] /\ wf_s sample_value /\ dj_s sample_value.
Proof.
  eexists. split; [vm_compute; reflexivity|]. split; [reflexivity|]. split.
  - repeat (constructor; try (unfold inside; cbn; repeat split; try reflexivity; lia)).
  - repeat (constructor; try (unfold rdisj; cbn; lia)).
Qed.
