From Coq Require Import String List ZArith Bool Lia Permutation Sorted.
From HV Require Import Base.Sexp Base.Str Base.Pos Base.SortSpec Model.Addr Model.DepKeys Model.Schema Model.Ast Model.Merge Model.BodyQueries.
Import ListNotations.

(* ---------------- C13 ---------------- *)
Definition has_prefix_list {A} (p l : list A) : Prop := exists s, l = (p ++ s)%list.

Lemma has_prefix_app {A} (p q s : list A) : has_prefix_list (p ++ q) s -> has_prefix_list p s.
Proof. intros [x ->]. exists (q ++ x)%list. now rewrite app_assoc. Qed.

Lemma label_tokens_prefix mods ls rs : Forall (fun t => has_prefix_list mods (st_mods t)) (label_tokens mods ls rs).
Proof.
  revert rs; induction ls as [|l ls IH]; intros [|r rs]; cbn; constructor; [|apply IH].
  cbn. now exists (ls_mods l).
Qed.

(* every token carries the modifiers of all enclosing blocks (as a prefix, outermost first)
   followed by those of its own element *)
Lemma tokens_inherit_modifiers b0 : forall bs mods,
  Forall (fun t => has_prefix_list mods (st_mods t)) (tokens_body bs mods b0).
Proof.
  apply (body_ind'
    (fun b => forall bs mods, Forall (fun t => has_prefix_list mods (st_mods t)) (tokens_body bs mods b))
    (fun k => forall bs mods, Forall (fun t => has_prefix_list mods (st_mods t)) (block_tokens tokens_body bs mods k))).
  - intros attrs blocks r e IH bs mods. cbn [tokens_body]. apply Forall_app; split.
    { apply Forall_forall. intros t Ht. apply in_flat_map in Ht. destruct Ht as (a & _ & Ht).
      destruct (token_attr_schema bs (a_name a)) as [s|]; [|contradiction].
      destruct Ht as [<-|[]]. cbn. now exists (as_mods s). }
    { induction IH as [|k rest Hk _ IHr]; cbn [blocks_tokens]; [constructor|].
      apply Forall_app; split; [apply Hk|apply IHr]. }
  - intros t ls lrs tr o c r d kb IH bs mods. unfold block_tokens.
    destruct (alookup _ (bs_blocks bs)) as [sc|]; [|constructor].
    constructor; [cbn; now exists (bk_mods sc)|].
    apply Forall_app; split.
    { eapply Forall_impl; [|apply label_tokens_prefix]. intros x Hx. eapply has_prefix_app; exact Hx. }
    { destruct (merge_block_body_schemas sc _) as [m res].
      eapply Forall_impl; [|apply IH]. intros x Hx. eapply has_prefix_app; exact Hx. }
Qed.

(* surplus labels get no token: at most one label token per label the schema declares *)
Lemma label_tokens_length mods ls rs : length (label_tokens mods ls rs) = Nat.min (length ls) (length rs).
Proof. revert rs; induction ls as [|l ls IH]; intros [|r rs]; cbn; auto. Qed.

(* unknown attributes get no token; a known one gets exactly one, on its name *)
Lemma attr_token_iff bs mods (a : attr) :
  (exists s, token_attr_schema bs (a_name a) = Some s) <->
  (match token_attr_schema bs (a_name a) with
   | Some s => [{| st_type := TokAttrName; st_mods := (mods ++ as_mods s)%list; st_rng := a_name_rng a |}]
   | None => [] end) <> [].
Proof.
  destruct (token_attr_schema bs (a_name a)); split; intros H; try discriminate; eauto.
  - destruct H; discriminate.
  - congruence.
Qed.

Lemma stoken_asym x y : stoken_ltb x y = true -> stoken_ltb y x = false.
Proof. unfold stoken_ltb. rewrite Z.ltb_lt, Z.ltb_ge. lia. Qed.
Lemma stoken_le_trans x y z : le stoken_ltb x y -> le stoken_ltb y z -> le stoken_ltb x z.
Proof. unfold le, stoken_ltb. rewrite !Z.ltb_ge. lia. Qed.

(* the file's tokens are sorted by position and are exactly the tokens of the walk *)
Lemma tokens_in_file_sorted schema b : StronglySorted (le stoken_ltb) (tokens_in_file schema b).
Proof. apply stable_sort_sorted; [apply stoken_asym|apply stoken_le_trans]. Qed.

Lemma tokens_in_file_perm schema b : Permutation (tokens_body schema [] b) (tokens_in_file schema b).
Proof. apply stable_sort_perm. Qed.

(* ---------------- C14 ---------------- *)
Lemma sym_asym x y : sym_ltb x y = true -> sym_ltb y x = false.
Proof. unfold sym_ltb. rewrite Z.ltb_lt, Z.ltb_ge. lia. Qed.
Lemma sym_le_trans x y z : le sym_ltb x y -> le sym_ltb y z -> le sym_ltb x z.
Proof. unfold le, sym_ltb. rewrite !Z.ltb_ge. lia. Qed.

Definition body_items (bs : option body_schema) (b : body) : list symbol :=
  (map (fun a => Symbol "attr" (a_name a) (expr_kind (a_expr a)) (a_rng a) (expr_symbols (a_expr a))) (b_attrs b)
   ++ blocks_symbols symbols_body bs (b_blocks b))%list.

Lemma symbols_body_eq bs b : symbols_body bs b = stable_sort sym_ltb (body_items bs b).
Proof. destruct b; reflexivity. Qed.

(* one symbol per attribute and per block written in the body, in source order *)
Lemma symbols_one_to_one bs b : Permutation (body_items bs b) (symbols_body bs b).
Proof. rewrite symbols_body_eq. apply stable_sort_perm. Qed.

Lemma blocks_symbols_length rec bs l : length (blocks_symbols rec bs l) = length l.
Proof. induction l; cbn; auto. Qed.

Lemma symbols_count bs b : length (symbols_body bs b) = (length (b_attrs b) + length (b_blocks b))%nat.
Proof.
  rewrite <- (Permutation_length (symbols_one_to_one bs b)). unfold body_items.
  now rewrite app_length, map_length, blocks_symbols_length.
Qed.

Lemma symbols_sorted bs b : StronglySorted (le sym_ltb) (symbols_body bs b).
Proof. rewrite symbols_body_eq. apply stable_sort_sorted; [apply sym_asym|apply sym_le_trans]. Qed.

(* an unreadable path never hides the symbols of the others *)
Lemma unreadable_path_harmless q l1 fs l2 :
  workspace_symbols q (l1 ++ (false, fs) :: l2) = workspace_symbols q (l1 ++ l2).
Proof. unfold workspace_symbols. rewrite !flat_map_app. cbn. reflexivity. Qed.

Lemma empty_query_returns_all (paths : list (bool * list (string * list symbol))) :
  workspace_symbols "" paths =
  flat_map (fun p : bool * list (string * list symbol) => if fst p then flat_map (fun f : string * list symbol => snd f) (snd p) else []) paths.
Proof.
  unfold workspace_symbols. apply flat_map_ext. intros [ok fs]. cbn. destruct ok; [|reflexivity].
  apply flat_map_ext. intros [n ss]. cbn. induction ss; cbn; congruence.
Qed.
