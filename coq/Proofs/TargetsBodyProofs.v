(* Body-level target collection (Model/TargetsBody.v): nothing is collected for attributes and blocks the
   schema does not know; everything collected comes from a schema-known attribute, from a schema-known
   block (what is declared inside it, or the block itself at its resolved address, with the block's
   extent and header as range and definition range) or from a declaration the body stands for. *)
From Coq Require Import String List ZArith Bool Permutation.
From HV Require Import Base.Sexp Base.Str Base.SortSpec Base.Pos Model.Addr Model.DepKeys Model.Schema Model.Ast
                       Model.Merge Model.Ref Model.Collect Model.ValueTargets Model.TargetsBody.
Import ListNotations.
Open Scope string_scope.
Open Scope list_scope.

Definition attr_known (bs : body_schema) (name : string) : bool :=
  (ext_has ext_count (bs_ext bs) && String.eqb name "count")
  || (ext_has ext_for_each (bs_ext bs) && String.eqb name "for_each")
  || match attr_schema_named bs name with Some _ => true | None => false end.

Section Facts.
  Variable exprs : list (range * texpr).
  Variable avals : list (range * list (string * attr_value)).
  Variable gaps : list (Z * Z).
  Variable typedecls : list (range * ty).
  Variable nfc : list (string * string).

  Theorem unknown_attribute_declares_nothing n bs b a :
    attr_known bs (a_name a) = false -> one_attr exprs n bs b a = Some [].
  Proof.
    unfold attr_known, one_attr. intros H.
    apply orb_false_iff in H as (H & H3). apply orb_false_iff in H as (H1 & H2).
    rewrite H1, H2. destruct (attr_schema_named bs (a_name a)); [discriminate|reflexivity].
  Qed.

  Section WithRec.
    Variable rec : body_schema -> option (range * range) -> body -> option (option (list target)).
    Variable n : nat.

    Theorem unknown_block_skipped bs pre k post :
      alookup (k_type k) (bs_blocks bs) = None ->
      blocks_targets exprs avals gaps typedecls nfc rec n bs (pre ++ k :: post) = blocks_targets exprs avals gaps typedecls nfc rec n bs (pre ++ post).
    Proof.
      intros H. induction pre as [|x r IH]; cbn [app blocks_targets].
      - rewrite H. reflexivity.
      - rewrite IH. reflexivity.
    Qed.

    (* every target standing for a block itself: the block's address, extent and header *)
    Theorem block_own_targets_are_the_block m ks ba addr k own :
      block_own_targets exprs gaps typedecls nfc m ks ba addr k = Some own ->
      Forall (fun t => t_addr t = addr /\ t_rng t = Some (k_rng k) /\ t_def t = Some (k_def_rng k) /\ t_scope t = ba_scope ba) own.
    Proof.
      unfold block_own_targets. intros H.
      match type of H with (match ?A with _ => _ end) = _ => destruct A as [st|] eqn:Es; [|discriminate] end.
      match type of H with (match ?B with _ => _ end) = _ => destruct B as [dp|] eqn:Ed; [|discriminate] end.
      injection H as <-.
      assert (Hst : forall x, st = Some x -> t_addr x = addr /\ t_rng x = Some (k_rng k) /\ t_def x = Some (k_def_rng k) /\ t_scope x = ba_scope ba).
      { intros x ->. destruct (ba_body_data ba); [|discriminate].
        destruct (data_type nfc m (bk_type ks) (bk_body ks)); [|discriminate].
        match type of Es with (match ?C with _ => _ end) = _ => destruct C; [|discriminate] end.
        injection Es as <-. cbn. repeat split; reflexivity. }
      assert (Hdp : forall x, dp = Some x -> t_addr x = addr /\ t_rng x = Some (k_rng k) /\ t_def x = Some (k_def_rng k) /\ t_scope x = ba_scope ba).
      { intros x ->. destruct (ba_dep_data ba); [|discriminate].
        destruct (dependent_body_schema ks k) as [[[dep|] dk] [| | |]]; try discriminate.
        match type of Ed with (match ?C with _ => _ end) = _ => destruct C; [|discriminate] end.
        match type of Ed with (match ?C with _ => _ end) = _ => destruct C; [|discriminate] end.
        injection Ed as <-. cbn. repeat split; reflexivity. }
      repeat (apply Forall_app; split).
      - destruct (ba_as_ref ba); constructor; [cbn; repeat split; reflexivity|constructor].
      - destruct (ba_type_of ba); constructor; [cbn; repeat split; reflexivity|constructor].
      - destruct dp as [d|]; [constructor; [apply Hdp; reflexivity|constructor]|].
        destruct st as [x|]; constructor; [apply Hst; reflexivity|constructor].
      - destruct (ba_unknown_nested ba); constructor; [cbn; repeat split; reflexivity|constructor].
    Qed.

    Lemma attrs_targets_in bs b l : forall ts t,
      attrs_targets exprs n bs b l = Some ts -> In t ts ->
      exists a x, In a l /\ one_attr exprs n bs b a = Some x /\ In t x.
    Proof.
      induction l as [|a r IH]; intros ts t H Hin; cbn [attrs_targets] in H.
      - injection H as <-. destruct Hin.
      - destruct (one_attr exprs n bs b a) as [x|] eqn:Ea; [|discriminate].
        destruct (attrs_targets exprs n bs b r) as [y|] eqn:Er; [|discriminate].
        injection H as <-. apply in_app_iff in Hin as [Hin|Hin].
        + exists a, x. split; [now left|split; [exact Ea|exact Hin]].
        + destruct (IH _ _ eq_refl Hin) as (a' & x' & Ha & Hx & Ht). exists a', x'. split; [now right|split; assumption].
    Qed.

    Lemma blocks_targets_in bs l : forall ts t,
      blocks_targets exprs avals gaps typedecls nfc rec n bs l = Some (Some ts) -> In t ts ->
      exists k ks x, In k l /\ alookup (k_type k) (bs_blocks bs) = Some ks /\
                     block_targets exprs avals gaps typedecls nfc rec n ks k = Some (Some x) /\ In t x.
    Proof.
      induction l as [|k r IH]; intros ts t H Hin; cbn [blocks_targets] in H.
      - injection H as <-. destruct Hin.
      - destruct (alookup (k_type k) (bs_blocks bs)) as [ks|] eqn:Ek.
        + destruct (block_targets exprs avals gaps typedecls nfc rec n ks k) as [[x|]|] eqn:Eb;
            destruct (blocks_targets exprs avals gaps typedecls nfc rec n bs r) as [[y|]|] eqn:Er; try discriminate.
          injection H as <-. apply in_app_iff in Hin as [Hin|Hin].
          * exists k, ks, x. split; [now left|repeat split; assumption].
          * destruct (IH _ _ eq_refl Hin) as (k' & ks' & x' & Hk & Hl & Hb & Ht).
            exists k', ks', x'. split; [now right|repeat split; assumption].
        + destruct (IH _ _ H Hin) as (k' & ks' & x' & Hk & Hl & Hb & Ht).
          exists k', ks', x'. split; [now right|repeat split; assumption].
    Qed.

    (* what a known block contributes: what its body declares (under the merged schema, with the block as
       parent), and - if its address resolves - the block itself *)
    Theorem block_targets_in ks k x t :
      block_targets exprs avals gaps typedecls nfc rec n ks k = Some (Some x) -> In t x ->
      (exists inner, rec (fst (merge_block_body_schemas ks k)) (Some (k_rng k, k_def_rng k)) (k_body k) = Some (Some inner) /\ In t inner)
      \/ (exists ba addr own, block_addr_of_sexp (bk_addr ks) = Some (Some ba) /\
                              block_own_targets exprs gaps typedecls nfc n ks ba addr k = Some own /\ In t own /\
                              t_addr t = addr /\ t_rng t = Some (k_rng k) /\ t_def t = Some (k_def_rng k)).
    Proof.
      unfold block_targets. intros H Hin.
      destruct (block_addr_of_sexp (bk_addr ks)) as [oba|] eqn:Ea; [|discriminate].
      destruct (rec _ _ (k_body k)) as [[inner|]|] eqn:Er; try discriminate.
      destruct oba as [ba|].
      - destruct (resolve_block_address _ _ _) as [addr|] eqn:Eaddr.
        + destruct (block_own_targets exprs gaps typedecls nfc n ks ba addr k) as [own|] eqn:Eo; [|discriminate].
          injection H as <-. apply in_app_iff in Hin as [Hin|Hin].
          * left. exists inner. split; [reflexivity|exact Hin].
          * right. exists ba, addr, own. split; [reflexivity|]. split; [exact Eo|]. split; [exact Hin|].
            pose proof (block_own_targets_are_the_block _ _ _ _ _ _ Eo) as HF. rewrite Forall_forall in HF.
            destruct (HF _ Hin) as (A & B & C & _). repeat split; assumption.
        + injection H as <-. left. exists inner. split; [reflexivity|exact Hin].
      - injection H as <-. left. exists inner. split; [reflexivity|exact Hin].
    Qed.

    Theorem body_step_sound bs parent b ts t :
      body_step exprs avals gaps typedecls nfc rec n bs parent b = Some (Some ts) -> In t ts ->
      (exists a x, In a (b_attrs b) /\ attr_known bs (a_name a) = true /\ one_attr exprs n bs b a = Some x /\ In t x)
      \/ (exists k ks x, In k (b_blocks b) /\ alookup (k_type k) (bs_blocks bs) = Some ks /\
                         block_targets exprs avals gaps typedecls nfc rec n ks k = Some (Some x) /\ In t x)
      \/ (exists s tg, In s (bs_targetable bs) /\ targetable_of_sexp s = Some tg /\ t = targetable_target parent tg).
    Proof.
      unfold body_step. intros H Hin.
      destruct (attrs_targets exprs n bs b (b_attrs b)) as [ats|] eqn:Ea; [|discriminate].
      destruct (blocks_targets exprs avals gaps typedecls nfc rec n bs (b_blocks b)) as [[bts|]|] eqn:Eb; try discriminate;
        destruct (map_opt targetable_of_sexp (bs_targetable bs)) as [tgs|] eqn:Et; try discriminate.
      injection H as <-.
      apply (Permutation_in _ (Permutation_sym (stable_sort_perm targets_less _))) in Hin.
      apply in_app_iff in Hin as [Hin|Hin]; [|apply in_app_iff in Hin as [Hin|Hin]].
      - left. destruct (attrs_targets_in _ _ _ _ _ Ea Hin) as (a & x & Ha & Hx & Ht). exists a, x.
        split; [exact Ha|]. split; [|split; assumption].
        destruct (attr_known bs (a_name a)) eqn:Ek; [reflexivity|].
        rewrite (unknown_attribute_declares_nothing n bs b a Ek) in Hx. injection Hx as <-. destruct Ht.
      - right; left. exact (blocks_targets_in _ _ _ _ Eb Hin).
      - right; right. apply in_map_iff in Hin as (tg & <- & Htg).
        clear -Et Htg. revert tgs Et Htg. induction (bs_targetable bs) as [|s r IH]; intros tgs Et Htg; cbn [map_opt] in Et.
        + injection Et as <-. destruct Htg.
        + destruct (targetable_of_sexp s) as [y|] eqn:Es; [|discriminate].
          destruct (map_opt targetable_of_sexp r) as [ys|] eqn:Er; [|discriminate]. injection Et as <-.
          destruct Htg as [<-|Htg].
          * exists s, y. split; [now left|split; [exact Es|reflexivity]].
          * destruct (IH _ eq_refl Htg) as (s' & tg' & Hs & Ht & He). exists s', tg'. split; [now right|split; assumption].
    Qed.
  End WithRec.

  (* the same for the fuelled function: one unfolding *)
  Theorem body_targets_sound fuel bs parent b ts t :
    body_targets exprs avals gaps typedecls nfc (S fuel) bs parent b = Some (Some ts) -> In t ts ->
    (exists a x, In a (b_attrs b) /\ attr_known bs (a_name a) = true /\ one_attr exprs fuel bs b a = Some x /\ In t x)
    \/ (exists k ks x, In k (b_blocks b) /\ alookup (k_type k) (bs_blocks bs) = Some ks /\
                       block_targets exprs avals gaps typedecls nfc (body_targets exprs avals gaps typedecls nfc fuel) fuel ks k = Some (Some x) /\ In t x)
    \/ (exists s tg, In s (bs_targetable bs) /\ targetable_of_sexp s = Some tg /\ t = targetable_target parent tg).
  Proof. cbn [body_targets]. apply body_step_sound. Qed.

  Theorem unknown_block_declares_nothing fuel bs parent attrs pre k post r e :
    alookup (k_type k) (bs_blocks bs) = None ->
    body_targets exprs avals gaps typedecls nfc fuel bs parent (Body attrs (pre ++ k :: post) r e) =
    body_targets exprs avals gaps typedecls nfc fuel bs parent (Body attrs (pre ++ post) r e).
  Proof.
    intros H. destruct fuel as [|n]; [reflexivity|]. cbn [body_targets]. unfold body_step. cbn [b_attrs b_blocks].
    rewrite (unknown_block_skipped (body_targets exprs avals gaps typedecls nfc n) n bs pre k post H).
    assert (Ha : forall l, attrs_targets exprs n bs (Body attrs (pre ++ k :: post) r e) l = attrs_targets exprs n bs (Body attrs (pre ++ post) r e) l).
    { induction l as [|a l' IH]; cbn [attrs_targets]; [reflexivity|]. rewrite IH. reflexivity. }
    rewrite Ha. reflexivity.
  Qed.
End Facts.
