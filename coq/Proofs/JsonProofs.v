From Coq Require Import String Ascii List Bool Arith Lia.
From HV Require Import Base.Sexp Model.Schema Model.Json.
Import ListNotations.
Open Scope string_scope. Open Scope list_scope.

(* ---------- induction over configurations *)
Lemma dbody_ind' (P : dbody -> Prop) :
  (forall attrs groups, Forall (fun g => Forall (fun i => P (snd i)) (snd g)) groups -> P (DBody attrs groups)) ->
  forall d, P d.
Proof.
  intros H. fix IH 1. intros [attrs groups]. apply H.
  induction groups as [|g gs IHg]; constructor; [|exact IHg].
  destruct g as [t insts]. cbn [snd].
  induction insts as [|i is IHi]; constructor; [|exact IHi].
  apply IH.
Qed.

(* ---------- small facts *)
Definition block_step (f : nat) (sch : jschema) (m : string * jval) : option (list (string * (list string * content))) :=
  if mem (fst m) (js_attrs sch) then Some [] else
  match alookup (fst m) (js_blocks sch) with
  | None => Some []
  | Some blk =>
      map_opt (fun i => match jdecode f (inner_schema blk (fst i) (snd i)) (snd i) with
                        | Some c => Some (fst m, (fst i, c))
                        | None => None
                        end)
              (unpack (jb_nlabels blk) (snd m) [])
  end.

Lemma jdecode_S f sch v :
  jdecode (S f) sch v =
  match concat_opt (map (block_step f sch) (collect_deep v)) with
  | Some blocks => Some (Content (first_wins [] (filter (fun m => is_attr_member sch v (fst m)) (collect_deep v))) blocks)
  | None => None
  end.
Proof. reflexivity. Qed.

Lemma concat_opt_app {A} (a b : list (option (list A))) :
  concat_opt (a ++ b) =
  match concat_opt a, concat_opt b with Some x, Some y => Some (x ++ y) | _, _ => None end.
Proof.
  induction a as [|o r IH]; cbn [concat_opt app].
  - destruct (concat_opt b); reflexivity.
  - destruct o as [x|]; [|reflexivity]. rewrite IH.
    destruct (concat_opt r), (concat_opt b); try reflexivity. now rewrite app_assoc.
Qed.

Lemma concat_opt_nils {A B} (f : B -> option (list A)) (l : list B) :
  (forall x, In x l -> f x = Some []) -> concat_opt (map f l) = Some [].
Proof.
  induction l as [|x r IH]; intros H; cbn [map concat_opt]; [reflexivity|].
  rewrite (H x (or_introl eq_refl)), IH; [reflexivity|]. intros y Hy. apply H. now right.
Qed.

Lemma concat_opt_flat {A B} (f : B -> option (list A)) (g : B -> list A) (l : list B) :
  (forall x, In x l -> f x = Some (g x)) -> concat_opt (map f l) = Some (flat_map g l).
Proof.
  induction l as [|x r IH]; intros H; cbn [map concat_opt flat_map]; [reflexivity|].
  rewrite (H x (or_introl eq_refl)), IH; [reflexivity|]. intros y Hy. apply H. now right.
Qed.

Lemma map_opt_all {A B} (f : A -> option B) (g : A -> B) (l : list A) :
  (forall x, In x l -> f x = Some (g x)) -> map_opt f l = Some (map g l).
Proof.
  induction l as [|x r IH]; intros H; cbn [map_opt map]; [reflexivity|].
  rewrite (H x (or_introl eq_refl)). cbn [opt_bind]. rewrite IH; [reflexivity|]. intros y Hy. apply H. now right.
Qed.

Lemma mem_In k l : mem k l = true <-> In k l.
Proof.
  unfold mem. rewrite existsb_exists. split.
  - intros (x & Hx & E). apply String.eqb_eq in E. now subst.
  - intros H. exists k. split; [exact H|apply String.eqb_refl].
Qed.

Lemma mem_app k a b : mem k (a ++ b) = mem k a || mem k b.
Proof. unfold mem. apply existsb_app. Qed.

Lemma nodupb_app_l a b : nodupb (a ++ b) = true -> nodupb a = true.
Proof.
  induction a as [|x r IH]; cbn [nodupb app]; [reflexivity|].
  rewrite andb_true_iff, negb_true_iff, mem_app, orb_false_iff. intros [[H1 _] H2].
  rewrite H1. cbn [negb andb]. now apply IH.
Qed.

Lemma first_wins_nodup l : forall seen,
  (forall x, In x (map fst l) -> mem x seen = false) -> nodupb (map fst l) = true -> first_wins seen l = l.
Proof.
  induction l as [|m r IH]; intros seen Hs Hn; cbn [first_wins]; [reflexivity|].
  cbn [map nodupb] in Hn. apply andb_true_iff in Hn as [Hm Hn]. apply negb_true_iff in Hm.
  rewrite (Hs (fst m)); [|now left]. f_equal. apply IH; [|exact Hn].
  intros x Hx. unfold mem. cbn [existsb]. apply orb_false_iff. split.
  - destruct (String.eqb x (fst m)) eqn:E; [|reflexivity]. apply String.eqb_eq in E. subst x.
    apply mem_In in Hx. congruence.
  - apply Hs. now right.
Qed.

Lemma filter_all {A} (p : A -> bool) l : (forall x, In x l -> p x = true) -> filter p l = l.
Proof.
  induction l as [|x r IH]; intros H; cbn [filter]; [reflexivity|].
  rewrite (H x (or_introl eq_refl)). f_equal. apply IH. intros y Hy. apply H. now right.
Qed.

Lemma filter_none {A} (p : A -> bool) l : (forall x, In x l -> p x = false) -> filter p l = [].
Proof.
  induction l as [|x r IH]; intros H; cbn [filter]; [reflexivity|].
  rewrite (H x (or_introl eq_refl)). apply IH. intros y Hy. apply H. now right.
Qed.

Lemma max_ge x l : In x l -> x <= fold_right Nat.max 0 l.
Proof. induction l as [|y r IH]; intros H; [destruct H|]. destruct H as [H|H]; cbn [fold_right]; [subst; lia|specialize (IH H); lia]. Qed.

Lemma map_opt_map_all {A B C} (f : B -> option C) (h : A -> B) (k : A -> C) (l : list A) :
  (forall x, In x l -> f (h x) = Some (k x)) -> map_opt f (map h l) = Some (map k l).
Proof.
  induction l as [|x r IH]; intros H; cbn [map_opt map]; [reflexivity|].
  rewrite (H x (or_introl eq_refl)). cbn [opt_bind]. rewrite IH; [reflexivity|]. intros y Hy. apply H. now right.
Qed.

(* ---------- labels *)
Lemma to_json_is_obj d : exists m, to_json d = JObj m.
Proof. destruct d as [a g]. cbn [to_json]. eexists. reflexivity. Qed.

Lemma unpack_wrap ls : forall m used,
  unpack (length ls) (wrap ls (JObj m)) used = [(used ++ ls, JObj m)].
Proof.
  induction ls as [|l r IH]; intros m used; cbn [length wrap unpack].
  - now rewrite app_nil_r.
  - cbn [collect_deep flat_map fst snd]. rewrite IH, app_nil_r, <- app_assoc. reflexivity.
Qed.

(* the array of label-wrapped instances of one block type unpacks to exactly those instances *)
Lemma unpack_insts n (insts : list (list string * dbody)) :
  (forall i, In i insts -> length (fst i) = n) ->
  unpack n (JArr (map (fun i => wrap (fst i) (to_json (snd i))) insts)) [] =
  map (fun i => (fst i, to_json (snd i))) insts.
Proof.
  intros Hlen. destruct n as [|n'].
  - cbn [unpack]. rewrite map_map. apply map_ext_in. intros i Hi.
    specialize (Hlen i Hi). destruct (fst i); [reflexivity|discriminate].
  - cbn [unpack collect_deep]. induction insts as [|i r IH]; cbn [map flat_map]; [reflexivity|].
    pose proof (Hlen i (or_introl eq_refl)) as Hi. destruct (fst i) as [|l ls] eqn:El; [discriminate|].
    cbn [wrap flat_map app fst snd]. cbn [length] in Hi. injection Hi as Hi. subst n'.
    destruct (to_json_is_obj (snd i)) as (m & Em). rewrite Em, unpack_wrap.
    cbn [app]. f_equal.
    change (flat_map (fun m0 : string * jval => unpack (length ls) (snd m0) ([] ++ [fst m0]))
              (flat_map (fun e : jval => match e with JObj m0 => m0 | _ => [] end)
                 (map (fun i0 : list string * dbody => wrap (fst i0) (to_json (snd i0))) r)) =
            map (fun i0 : list string * dbody => (fst i0, to_json (snd i0))) r).
    apply IH. intros j Hj. apply Hlen. now right.
Qed.

(* ---------- the round trip *)
Theorem json_roundtrip d : forall sch fuel,
  conforms sch d = true -> ddepth d <= fuel -> jdecode fuel sch (to_json d) = Some (ncontent d).
Proof.
  induction d as [attrs groups IH] using dbody_ind'. intros sch fuel Hc Hd.
  destruct fuel as [|f]; [cbn [ddepth] in Hd; lia|].
  cbn [conforms] in Hc. apply andb_true_iff in Hc as [Hc Hg]. apply andb_true_iff in Hc as [Hn Ha].
  rewrite forallb_forall in Ha, Hg.
  rewrite jdecode_S. cbn [to_json collect_deep ncontent].
  set (gm := map (fun g : string * list (list string * dbody) =>
                    (fst g, JArr (map (fun i => wrap (fst i) (to_json (snd i))) (snd g)))) groups).
  (* blocks *)
  rewrite map_app, concat_opt_app.
  rewrite (concat_opt_nils (block_step f sch) attrs).
  2:{ intros a Hin. specialize (Ha a Hin). unfold block_step.
      destruct (mem (fst a) (js_attrs sch)); [reflexivity|]. cbn [orb] in Ha.
      apply andb_true_iff in Ha as [Ha _]. apply andb_true_iff in Ha as [_ Ha].
      destruct (alookup (fst a) (js_blocks sch)); [discriminate|reflexivity]. }
  unfold gm at 1. rewrite map_map.
  rewrite (concat_opt_flat _ (fun g : string * list (list string * dbody) =>
                                map (fun i => (fst g, (fst i, ncontent (snd i)))) (snd g)) groups).
  2:{ intros g Hin. specialize (Hg g Hin). apply andb_true_iff in Hg as [Hg1 Hg2]. apply negb_true_iff in Hg1.
      unfold block_step. cbn [fst snd]. rewrite Hg1.
      destruct (alookup (fst g) (js_blocks sch)) as [blk|]; [|discriminate].
      rewrite forallb_forall in Hg2.
      rewrite unpack_insts.
      2:{ intros i Hi. specialize (Hg2 i Hi). apply andb_true_iff in Hg2 as [Hl _]. now apply Nat.eqb_eq in Hl. }
      apply map_opt_map_all. intros i Hi. cbn [fst snd].
      specialize (Hg2 i Hi). apply andb_true_iff in Hg2 as [_ Hci].
      rewrite Forall_forall in IH. specialize (IH g Hin). rewrite Forall_forall in IH.
      rewrite (IH i Hi _ f Hci); [reflexivity|].
      cbn [ddepth] in Hd. apply le_S_n in Hd. etransitivity; [|exact Hd].
      apply max_ge. apply in_flat_map. exists g. split; [exact Hin|]. apply in_map_iff. exists i. now split. }
  (* attributes *)
  cbn [app]. f_equal. f_equal.
  rewrite filter_app.
  rewrite (filter_all _ attrs).
  2:{ intros a Hin. specialize (Ha a Hin). unfold is_attr_member. cbn [is_obj]. rewrite andb_true_r. exact Ha. }
  rewrite (filter_none _ gm).
  2:{ intros m Hin. unfold gm in Hin. apply in_map_iff in Hin as (g & <- & Hin). cbn [fst].
      specialize (Hg g Hin). apply andb_true_iff in Hg as [Hg1 Hg2]. apply negb_true_iff in Hg1.
      unfold is_attr_member. rewrite Hg1. cbn [orb].
      destruct (alookup (fst g) (js_blocks sch)); [|discriminate]. cbn [is_some negb]. now rewrite andb_false_r. }
  rewrite app_nil_r. apply first_wins_nodup; [intros x _; reflexivity|]. eapply nodupb_app_l. exact Hn.
Qed.

(* ---------- references in JSON strings *)
Lemma drop_last_brace_app t : drop_last_brace (t ++ "}")%string = Some t.
Proof.
  induction t as [|c t' IH]; [reflexivity|].
  destruct t' as [|c' t'']; [reflexivity|].
  change (drop_last_brace (String c (String c' (t'' ++ "}")%string)) = Some (String c (String c' t''))).
  change (drop_last_brace (String c' (t'' ++ "}")%string) = Some (String c' t'')) in IH.
  cbn [drop_last_brace] in *. now rewrite IH.
Qed.

Lemma drop_last_brace_inv s : forall t, drop_last_brace s = Some t -> s = (t ++ "}")%string.
Proof.
  induction s as [|c r IH]; intros t; [discriminate|].
  destruct r as [|c' r'].
  - cbn [drop_last_brace]. destruct (Ascii.eqb_spec c "}"); [|discriminate]. intros H; inversion H; subst. reflexivity.
  - change (match drop_last_brace (String c' r') with Some t0 => Some (String c t0) | None => None end = Some t -> String c (String c' r') = (t ++ "}")%string).
    destruct (drop_last_brace (String c' r')) as [t0|] eqn:E; [|discriminate].
    intros H; inversion H; subst. cbn [append]. f_equal. now apply IH.
Qed.

Lemma strip_interp_inv s t : strip_interp s = Some t -> s = ("${" ++ t ++ "}")%string.
Proof.
  destruct s as [|a [|b r]]; try discriminate. cbn [strip_interp].
  destruct (Ascii.eqb_spec a "$"); [|discriminate]. destruct (Ascii.eqb_spec b "{"); [|discriminate].
  cbn [andb]. intros H. apply drop_last_brace_inv in H. subst. reflexivity.
Qed.

Lemma trav_first t : trav_ok TStart t = true -> exists c r, t = String c r /\ is_ident_start c = true.
Proof.
  destruct t as [|c r]; [discriminate|]. cbn [trav_ok tstep].
  destruct (is_ident_start c) eqn:E; [|discriminate]. intros _. now exists c, r.
Qed.

Lemma strip_interp_traversal t : trav_ok TStart t = true -> strip_interp t = None.
Proof.
  intros H. destruct (trav_first t H) as (c & r & -> & Hc).
  destruct r as [|b r']; [reflexivity|]. cbn [strip_interp].
  destruct (Ascii.eqb_spec c "$") as [->|_]; [discriminate|reflexivity].
Qed.

(* a traversal written as a bare string (legacy form) is an origin with that address *)
Theorem json_ref_legacy t : trav_ok TStart t = true -> json_ref t = Some t.
Proof. intros H. unfold json_ref, legacy_ref. now rewrite (strip_interp_traversal t H), H. Qed.

(* and so is the same traversal wrapped in a single interpolation *)
Theorem json_ref_interp t : trav_ok TStart t = true -> json_ref ("${" ++ t ++ "}")%string = Some t.
Proof.
  intros H. unfold json_ref.
  change (strip_interp ("${" ++ t ++ "}")%string) with (drop_last_brace (t ++ "}")%string).
  now rewrite drop_last_brace_app, H.
Qed.

(* nothing else is: an origin's address is a traversal, written in one of the two forms *)
Theorem json_ref_sound s t :
  json_ref s = Some t -> trav_ok TStart t = true /\ (s = t \/ s = ("${" ++ t ++ "}")%string).
Proof.
  unfold json_ref, legacy_ref.
  destruct (strip_interp s) as [t0|] eqn:E.
  - destruct (trav_ok TStart t0) eqn:E0.
    + intros H; inversion H; subst. split; [exact E0|right]. now apply strip_interp_inv.
    + destruct (trav_ok TStart s) eqn:E1; [|discriminate]. intros H; inversion H; subst. split; [exact E1|now left].
  - destruct (trav_ok TStart s) eqn:E1; [|discriminate]. intros H; inversion H; subst. split; [exact E1|now left].
Qed.

(* ---------- the dynamic-blocks extension *)

(* where a block's body enables dynamic blocks and a dependent body with block types is found, the body in
   force has a block type "dynamic" built from exactly those block types *)
Lemma dynamic_offered_for_dependent_blocks b labels v d :
  js_dyn (jb_body b) = true ->
  find (fun d => cond_holds labels v (fst d)) (jb_dep b) = Some d ->
  js_blocks (snd d) <> [] ->
  alookup "dynamic" (js_blocks (inner_schema b labels v)) = Some (dynamic_block (propagate_dyn (js_blocks (snd d)))).
Proof.
  intros Hd Hf Hne. unfold inner_schema. rewrite Hf, Hd.
  destruct (js_blocks (snd d)) as [|x r] eqn:E; [contradiction|].
  cbn [propagate_dyn map]. cbn. reflexivity.
Qed.

(* ... where none is found (or none is declared), from all block types of the static body *)
Lemma dynamic_offered_for_static_blocks b labels v :
  js_dyn (jb_body b) = true ->
  find (fun d => cond_holds labels v (fst d)) (jb_dep b) = None ->
  js_blocks (jb_body b) <> [] ->
  alookup "dynamic" (js_blocks (inner_schema b labels v)) = Some (dynamic_block (propagate_dyn (js_blocks (jb_body b)))).
Proof.
  intros Hd Hf Hne. unfold inner_schema. rewrite Hf, Hd.
  destruct (js_blocks (jb_body b)) as [|x r] eqn:E; [contradiction|]. cbn. reflexivity.
Qed.

(* a dynamic block labelled with a block type holds exactly one block type, "content", and content is
   decoded with the body of THAT block type (the first of that name), whatever other types may be generated *)
Lemma dynamic_content_is_the_named_type types t blk v :
  alookup t types = Some blk ->
  inner_schema (dynamic_block types) [t] v =
  JSch ["for_each"; "iterator"; "labels"] false [("content", JBlk 0 (jb_body blk) [])] false.
Proof.
  intros Hl. unfold inner_schema, dynamic_block. cbn [jb_body jb_dep js_dyn].
  assert (Hf : find (fun d : jcond * jschema => cond_holds [t] v (fst d))
                    (map (fun tb : string * jblock => (JCLabel 0 (fst tb), JSch [] false [("content", JBlk 0 (jb_body (snd tb)) [])] false)) types)
               = Some (JCLabel 0 t, JSch [] false [("content", JBlk 0 (jb_body blk) [])] false)).
  { induction types as [|[t' b'] r IH]; [discriminate|].
    cbn [alookup] in Hl. cbn [map find fst snd cond_holds nth_error].
    destruct (String.eqb t t') eqn:E.
    - inversion Hl; subst. apply String.eqb_eq in E. subst. reflexivity.
    - apply IH. exact Hl. }
  rewrite Hf. cbn. reflexivity.
Qed.

(* ---------- non-vacuity *)
Definition ex_schema : jschema :=
  JSch ["name"] false
    [("res", JBlk 2 (JSch ["str"] false [("opts", JBlk 0 (JSch ["flag"] false [] false) [])] true)
                    [(JCLabel 0 "aws", JSch ["zone"] false [("rule", JBlk 0 (JSch ["port"] false [] false) [])] false)]);
     ("locals", JBlk 0 (JSch [] true [] false) []);
     ("backend", JBlk 0 (JSch ["kind"] false [] false) [(JCAttr "kind" "local" (Some "local"), JSch ["path"] false [] false)])] false.

(* (the resource body enables dynamic blocks: under the type whose body is found, the dependent body's block type
   may be generated; under an unknown type, the static one) *)
Definition ex_config : dbody :=
  DBody [("name", JStr "n")]
    [("res", [(["aws"; "a"], DBody [("str", JStr "x"); ("zone", JStr "${var.z}")]
                 [("opts", [([], DBody [("flag", JLit "true")] [])]);
                  ("dynamic", [(["rule"], DBody [("for_each", JArr [JStr "a"])] [("content", [([], DBody [("port", JLit "80")] [])])])])]);
              (["gcp"; "b"], DBody [] [("dynamic", [(["opts"], DBody [("for_each", JArr [JStr "a"])] [("content", [([], DBody [("flag", JLit "true")] [])])])])])]);
     ("locals", [([], DBody [("l0", JArr [JLit "1"; JStr "s"])] [])]);
     ("backend", [([], DBody [("path", JStr "p")] []); ([], DBody [("kind", JStr "local"); ("path", JStr "q")] [])])].

Example ex_conforms : conforms ex_schema ex_config = true /\ ddepth ex_config <= 4.
Proof. split; [vm_compute; reflexivity|vm_compute; lia]. Qed.

Example ex_traversal : trav_ok TStart "res.aws.a[0].str" = true /\ trav_ok TStart "var.x y" = false.
Proof. split; vm_compute; reflexivity. Qed.
