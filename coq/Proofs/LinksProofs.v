(* LinksInFile (Model/Links.v): a documentation link sits on a label or on the value of an attribute that took
   part in selecting the body carrying the link; nothing for unknown blocks. *)
From Coq Require Import String List ZArith Arith Bool Lia.
From HV Require Import Base.Sexp Base.Str Base.Pos Model.Addr Model.DepKeys Model.Schema Model.Ast Model.Merge Model.Links.
Import ListNotations.
Open Scope string_scope.
Open Scope list_scope.

(* the label keys are exactly labels the schema marks as dependency keys *)
Lemma label_keys_prefix_depkey ls labels : forall i ld,
  In ld (label_keys_prefix i ls labels) ->
  exists j l, ld_index ld = Z.of_nat (i + j) /\ nth_error ls j = Some l /\ ls_depkey l = true /\
              nth_error labels (i + j) = Some (ld_value ld).
Proof.
  induction ls as [|l r IH]; intros i ld H; cbn [label_keys_prefix] in H; [destruct H|].
  destruct (ls_depkey l) eqn:Ed.
  - destruct (nth_error labels i) as [v|] eqn:En; [|destruct H].
    destruct H as [<-|H].
    + exists 0%nat, l. cbn. rewrite Nat.add_0_r. repeat split; assumption.
    + destruct (IH _ _ H) as (j & l' & Hi & Hn & Hd & Hv). exists (S j), l'.
      replace (i + S j)%nat with (S i + j)%nat by lia. repeat split; assumption.
  - destruct (IH _ _ H) as (j & l' & Hi & Hn & Hd & Hv). exists (S j), l'.
    replace (i + S j)%nat with (S i + j)%nat by lia. repeat split; assumption.
Qed.

(* the attribute keys are exactly attributes the body in force marks as dependency keys *)
Lemma attr_keys_depkey sattrs attrs : forall ak,
  In ak (attr_keys sattrs attrs) -> exists s, In (ak_name ak, s) sattrs /\ af_depkey (as_flags s) = true.
Proof.
  induction sattrs as [|[n s] r IH]; intros ak H; cbn [attr_keys] in H; [destruct H|].
  destruct (attr_key_for n s attrs) as [k|] eqn:Ek.
  - destruct H as [<-|H].
    + exists s. unfold attr_key_for in Ek. destruct (af_depkey (as_flags s)) eqn:Ed; [|discriminate]. cbn [negb] in Ek.
      assert (Hn : ak_name k = n).
      { destruct (find_attr n attrs) as [a|].
        - destruct (a_expr a); try (destruct (a_val a); try discriminate; injection Ek as <-; reflexivity).
          destruct addr; [|discriminate]. injection Ek as <-. reflexivity.
        - destruct (as_default s); [|discriminate]. injection Ek as <-. reflexivity. }
      rewrite Hn. split; [now left|reflexivity].
    + destruct (IH _ H) as (s' & Hs & Hd). exists s'. split; [now right|exact Hd].
  - destruct (IH _ H) as (s' & Hs & Hd). exists s'. split; [now right|exact Hd].
Qed.

Section Facts.
  Variable url : string -> option string.

  (* every link of a block: the lookup found a body with a documentation link, and the link sits on the range
     of a label that is one of the dependency keys in force, or on the value of such an attribute *)
  Theorem link_on_selecting_item ks k l :
    In l (block_links url ks k) ->
    exists dep dk res u tip,
      dependent_body_schema ks k = (Some dep, dk, res) /\ res <> LookupFailed /\
      bs_docs dep = Some (u, tip) /\ url u = Some (lk_uri l) /\ lk_tooltip l = tip /\
      ((exists ld, In ld (dk_labels dk) /\ nth_error (k_label_rngs k) (Z.to_nat (ld_index ld)) = Some (lk_rng l))
       \/ (exists ak a, In ak (dk_attrs dk) /\ find_attr (ak_name ak) (b_attrs (k_body k)) = Some a /\
                        lk_rng l = expr_range (a_expr a))).
  Proof.
    unfold block_links. intros H.
    destruct (dependent_body_schema ks k) as [[[dep|] dk] res] eqn:Ed; try (destruct res; destruct H).
    assert (Hres : res <> LookupFailed /\ In l (match bs_docs dep with
                     | Some (u, tip) => match url u with
                                        | Some u' =>
                                            flat_map (fun ld => match nth_error (k_label_rngs k) (Z.to_nat (ld_index ld)) with
                                                                | Some r => [{| lk_uri := u'; lk_tooltip := tip; lk_rng := r |}] | None => [] end) (dk_labels dk)
                                            ++ flat_map (fun ak => match find_attr (ak_name ak) (b_attrs (k_body k)) with
                                                                   | Some a => [{| lk_uri := u'; lk_tooltip := tip; lk_rng := expr_range (a_expr a) |}] | None => [] end) (dk_attrs dk)
                                        | None => [] end
                     | None => [] end)).
    { destruct res; try (split; [discriminate|exact H]). destruct H. }
    destruct Hres as (Hnf & Hin). clear H.
    destruct (bs_docs dep) as [[u tip]|] eqn:Edoc; [|destruct Hin].
    destruct (url u) as [u'|] eqn:Eu; [|destruct Hin].
    exists dep, dk, res, u, tip.
    apply in_app_iff in Hin as [Hin|Hin]; apply in_flat_map in Hin as (x & Hx & Hl).
    - destruct (nth_error (k_label_rngs k) (Z.to_nat (ld_index x))) as [r|] eqn:En; [|destruct Hl].
      destruct Hl as [<-|[]]. cbn. repeat split; try assumption; try reflexivity.
      left. exists x. split; assumption.
    - destruct (find_attr (ak_name x) (b_attrs (k_body k))) as [a|] eqn:Ef; [|destruct Hl].
      destruct Hl as [<-|[]]. cbn. repeat split; try assumption; try reflexivity.
      right. exists x, a. repeat split; assumption.
  Qed.

  (* blocks of a type unknown to the schema get no link *)
  Theorem unknown_block_no_link bs pre k post r e attrs :
    alookup (k_type k) (bs_blocks bs) = None ->
    links_in_body url bs (Body attrs (pre ++ k :: post) r e) = links_in_body url bs (Body attrs (pre ++ post) r e).
  Proof.
    intros H. unfold links_in_body. cbn [b_blocks]. rewrite !flat_map_app. cbn [flat_map]. rewrite H. reflexivity.
  Qed.
End Facts.
