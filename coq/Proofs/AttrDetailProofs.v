(* Facts about the model of attribute-name hover content and candidate detail (Model/AttrDetail.v). *)
From Coq Require Import String Ascii List ZArith Bool.
From HV Require Import Base.Sexp Base.Str Model.Addr Model.DepKeys Model.Schema Model.Merge Proofs.TypeHoverProofs.
From HV Require Import Model.AttrDetail.
Import ListNotations.
Open Scope string_scope.

Lemma app_assoc_s (a b c : string) : (a ++ b) ++ c = a ++ (b ++ c).
Proof. induction a as [|x a IH]; cbn; [reflexivity | rewrite IH; reflexivity]. Qed.

Lemma split_bold (name rest : string) : "**" ++ name ++ "** _" ++ rest = ("**" ++ name ++ "**") ++ " _" ++ rest.
Proof. cbn. f_equal. f_equal. rewrite app_assoc_s. reflexivity. Qed.

(* the hover on an attribute name names the attribute: the content begins with the name in bold *)
Theorem attr_hover_names_the_attribute name a :
  String.prefix ("**" ++ name ++ "**") (attr_hover_content name a) = true.
Proof. unfold attr_hover_content. rewrite split_bold. apply prefix_app_self. Qed.

(* ... and carries the description the schema gives the attribute, as the last paragraph *)
Theorem attr_hover_carries_the_description name a :
  as_desc a <> "" ->
  exists head, attr_hover_content name a = head ++ nl ++ nl ++ as_desc a.
Proof.
  intro Hd. unfold attr_hover_content.
  destruct (String.eqb (as_desc a) "") eqn:E; [apply String.eqb_eq in E; contradiction|].
  exists ("**" ++ name ++ "** _" ++ attr_detail a ++ "_").
  rewrite !app_assoc_s. reflexivity.
Qed.

(* the marks shown are exactly those the schema's flags say: required wins over optional, the others are independent *)
Theorem detail_marks_spec f :
  (In "write-only" (detail_marks f) <-> af_writeonly f = true) /\
  (In "required" (detail_marks f) <-> af_required f = true) /\
  (In "optional" (detail_marks f) <-> af_required f = false /\ af_optional f = true) /\
  (In "sensitive" (detail_marks f) <-> af_sensitive f = true).
Proof.
  unfold detail_marks.
  destruct (af_writeonly f), (af_required f), (af_optional f), (af_sensitive f); cbn;
    intuition (try discriminate; try congruence).
Qed.

(* marks come in one fixed order, so the text is a function of the flags and the constraint alone *)
Lemma detail_marks_cases f :
  detail_marks f =
  List.app (if af_writeonly f then ["write-only"] else [])
           (List.app (if af_required f then ["required"] else if af_optional f then ["optional"] else [])
                     (if af_sensitive f then ["sensitive"] else [])).
Proof. reflexivity. Qed.

Definition fl (w r o s : bool) : attr_flags :=
  {| af_required := r; af_optional := o; af_computed := false; af_deprecated := false;
     af_sensitive := s; af_writeonly := w; af_depkey := false |}.

Example attr_hover_example :
  attr_hover_content "password" (AttrSchema (fl true false true true) None "The secret." (CList (Some (CAny TStr false)) 0 0) [] 0 nil_sexp nil_sexp)
  = "**password** _write-only, optional, sensitive, list of string_" ++ nl ++ nl ++ "The secret.".
Proof. vm_compute. reflexivity. Qed.

Example one_of_example :
  cons_friendly (COneOf [CKeyword "k" ""; CLitType TStr false; CAny TStr false; CRef "s" TNil "" None; CMap None "" false 0 0; CLitType (TList TDyn) false])
  = "keyword or string or reference or map or list of any single type".
Proof. vm_compute. reflexivity. Qed.
