(* The obligation that ties the generic Copy() theorem to /repo: every exported field of every
   schema struct is copied in a mode that is adequate for its kind.  Gen/Fields.v is regenerated
   from the current source tree on every run, so this is re-checked against what the code does now. *)
From Coq Require Import String List Bool.
From HV Require Import Model.CopyModel Gen.Fields.
Lemma table_adequate : forallb adequate_entry fields_table = true.
Proof. vm_compute. reflexivity. Qed.

Lemma table_nonempty : 100 <= List.length fields_table.
Proof. vm_compute. repeat constructor. Qed.
