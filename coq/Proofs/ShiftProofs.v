From Coq Require Import String List ZArith Bool Lia.
From HV Require Import Base.Sexp Base.Pos Model.Addr Model.DepKeys Model.Schema Model.Ast Model.Merge Model.Validate Model.BodyQueries Model.Shift.
Import ListNotations.

Section P.
  Variable file : string.
  Variable at_ dl db : Z.
  Notation sr := (shift_range file at_ dl db).
  Notation sa := (shift_attr file at_ dl db).
  Notation sb := (shift_body file at_ dl db).
  Notation sk := (shift_block file at_ dl db).
  Notation sd := (shift_diag file at_ dl db).
  Notation st := (shift_stoken file at_ dl db).

  Lemma shift_body_eq attrs bls r e :
    sb (Body attrs bls r e) = Body (map sa attrs) (map sk bls) (sr r) (sr e).
  Proof.
    cbn [shift_body]. f_equal.
    induction bls as [|k rest IH]; [reflexivity|]. destruct k. cbn [map shift_block]. now rewrite IH.
  Qed.

  Lemma find_attr_shift n l : find_attr n (map sa l) = option_map sa (find_attr n l).
  Proof. induction l as [|a r IH]; cbn; [reflexivity|]. destruct (String.eqb n (a_name a)); [reflexivity|exact IH]. Qed.

  Lemma attr_key_for_shift n s l : attr_key_for n s (map sa l) = attr_key_for n s l.
  Proof.
    unfold attr_key_for. destruct (negb (af_depkey (as_flags s))); [reflexivity|].
    rewrite find_attr_shift. destruct (find_attr n l) as [a|]; cbn [option_map]; [|reflexivity].
    cbn [shift_attr a_expr a_val]. destruct (a_expr a); cbn [shift_expr]; reflexivity.
  Qed.

  Lemma attr_keys_shift sattrs l : attr_keys sattrs (map sa l) = attr_keys sattrs l.
  Proof.
    induction sattrs as [|[n s] r IH]; cbn [attr_keys]; [reflexivity|].
    rewrite attr_key_for_shift, IH. reflexivity.
  Qed.

  Lemma k_labels_shift k : k_labels (sk k) = k_labels k. Proof. destruct k; reflexivity. Qed.
  Lemma k_type_shift k : k_type (sk k) = k_type k. Proof. destruct k; reflexivity. Qed.
  Lemma k_body_shift k : k_body (sk k) = sb (k_body k). Proof. destruct k; reflexivity. Qed.
  Lemma b_attrs_shift b : b_attrs (sb b) = map sa (b_attrs b). Proof. destruct b; now rewrite shift_body_eq. Qed.
  Lemma b_blocks_shift b : b_blocks (sb b) = map sk (b_blocks b). Proof. destruct b; now rewrite shift_body_eq. Qed.
  Lemma b_rng_shift b : b_rng (sb b) = sr (b_rng b). Proof. destruct b; now rewrite shift_body_eq. Qed.

  Lemma dependency_keys_shift ls bs k : dependency_keys ls bs (sk k) = dependency_keys ls bs k.
  Proof.
    unfold dependency_keys. rewrite k_labels_shift.
    destruct (label_keys 0 ls (k_labels k)) as [x complete]. destruct (negb complete); [reflexivity|].
    destruct bs; [|reflexivity]. now rewrite k_body_shift, b_attrs_shift, attr_keys_shift.
  Qed.

  Lemma step_shift ls dep b k : dependent_body_schema_step ls dep b (sk k) = dependent_body_schema_step ls dep b k.
  Proof. unfold dependent_body_schema_step. now rewrite dependency_keys_shift. Qed.

  Lemma dependent_body_schema_shift bs k : dependent_body_schema bs (sk k) = dependent_body_schema bs k.
  Proof.
    unfold dependent_body_schema. rewrite step_shift.
    destruct (dependent_body_schema_step (bk_labels bs) (bk_dep bs) (bk_body bs) k) as [[r1 dk1] res1].
    destruct res1, r1; try reflexivity.
    destruct (has_dep_key_attr b); [|reflexivity]. now rewrite step_shift.
  Qed.

  (* the schema in force inside a block does not depend on where the block is *)
  Lemma merge_shift sc k : merge_block_body_schemas sc (sk k) = merge_block_body_schemas sc k.
  Proof. unfold merge_block_body_schemas. now rewrite dependent_body_schema_shift. Qed.

  Lemma attr_diags_shift u s a : attr_diags u s (sa a) = map sd (attr_diags u s a).
  Proof.
    unfold attr_diags. rewrite map_app. f_equal.
    - destruct s as [sc|]; [|reflexivity]. destruct (af_deprecated (as_flags sc)); reflexivity.
    - destruct s; [reflexivity|]. destruct u; reflexivity.
  Qed.

  Lemma surplus_shift v i t rs : surplus_label_diags v i t (map sr rs) = map sd (surplus_label_diags v i t rs).
  Proof.
    revert i; induction rs as [|r rest IH]; intros i; cbn [surplus_label_diags map]; [reflexivity|].
    rewrite map_app, IH. f_equal. destruct (Nat.leb v i); reflexivity.
  Qed.

  Lemma firstn_map {A B} (f : A -> B) n l : firstn n (map f l) = map f (firstn n l).
  Proof. revert l; induction n; intros [|x l]; cbn; auto. now rewrite IHn. Qed.

  Lemma block_diags_shift u s k : block_diags u s (sk k) = map sd (block_diags u s k).
  Proof.
    destruct k as [t ls lrs tr o c r d kb]. unfold block_diags. cbn [shift_block k_labels k_label_rngs k_type k_type_rng].
    destruct s as [sc|].
    - rewrite !map_app, firstn_map, surplus_shift. f_equal. f_equal.
      + destruct (Nat.ltb _ _); reflexivity.
      + destruct (bk_deprecated sc); reflexivity.
    - destruct u; reflexivity.
  Qed.

  Lemma count_blocks_shift n l : count_blocks n (map sk l) = count_blocks n l.
  Proof.
    unfold count_blocks. f_equal. induction l as [|k r IH]; cbn [map filter]; [reflexivity|].
    rewrite k_type_shift. destruct (String.eqb (k_type k) n); cbn; now rewrite IH.
  Qed.

  Lemma count_dynamic_shift n l : count_dynamic n (map sk l) = count_dynamic n l.
  Proof.
    unfold count_dynamic. f_equal. induction l as [|k r IH]; cbn [map filter]; [reflexivity|].
    rewrite k_type_shift, k_labels_shift. destruct (_ && _); cbn; now rewrite IH.
  Qed.

  Lemma flat_map_map_shift {A} (f g : A -> list diag) l :
    (forall x, f x = map sd (g x)) -> flat_map f l = map sd (flat_map g l).
  Proof. intros H. induction l as [|x r IH]; cbn; [reflexivity|]. now rewrite map_app, H, IH. Qed.

  Lemma body_diags_shift bs b : body_diags bs (sb b) = map sd (body_diags bs b).
  Proof.
    unfold body_diags. rewrite !map_app, b_blocks_shift, b_attrs_shift, b_rng_shift.
    f_equal; [|f_equal]; apply flat_map_map_shift; intros [n sc].
    - rewrite count_blocks_shift. destruct (_ && _ && _); reflexivity.
    - rewrite count_blocks_shift, count_dynamic_shift. destruct (_ && _ && _); reflexivity.
    - rewrite find_attr_shift. destruct (find_attr n (b_attrs b)); cbn [option_map]; destruct (af_required _); reflexivity.
  Qed.

  (* C18 for validation: the diagnostics of the translated file are the translated diagnostics *)
  Theorem walk_body_equivariant b0 : forall u s, walk_body u s (sb b0) = map sd (walk_body u s b0).
  Proof.
    apply (body_ind'
      (fun b => forall u s, walk_body u s (sb b) = map sd (walk_body u s b))
      (fun k => forall u s, walk_block walk_body u s (sk k) = map sd (walk_block walk_body u s k))).
    - intros attrs blocks r e IH u s. rewrite shift_body_eq. cbn [walk_body]. rewrite !map_app. f_equal; [|f_equal].
      + induction attrs as [|a rest IHa]; cbn [map flat_map]; [reflexivity|].
        rewrite map_app, IHa. f_equal. cbn [shift_attr a_name]. apply attr_diags_shift.
      + induction IH as [|k rest Hk _ IHr]; cbn [map walk_blocks]; [reflexivity|]. now rewrite map_app, Hk, IHr.
      + destruct s as [bs|]; [|reflexivity]. rewrite <- shift_body_eq. apply body_diags_shift.
    - intros t ls lrs tr o c r d kb IH u s.
      unfold walk_block at 1. unfold block_schema_for. rewrite k_type_shift.
      change (match s with Some bs => alookup (k_type (Block t ls lrs tr o c r d kb)) (bs_blocks bs) | None => None end)
        with (block_schema_for s (Block t ls lrs tr o c r d kb)).
      unfold walk_block. rewrite map_app, block_diags_shift. f_equal.
      cbn [shift_block].
      destruct (block_schema_for s _) as [sc|]; [|apply IH].
      destruct (bk_body sc); [|apply IH].
      change (Block t ls (map sr lrs) (sr tr) (sr o) (sr c) (sr r) (sr d) (sb kb)) with (sk (Block t ls lrs tr o c r d kb)).
      rewrite merge_shift. destruct (merge_block_body_schemas sc _) as [m res]. apply IH.
  Qed.

  Lemma label_tokens_shift mods ls rs : label_tokens mods ls (map sr rs) = map st (label_tokens mods ls rs).
  Proof. revert rs; induction ls as [|l ls IH]; intros [|r rs]; cbn [label_tokens map]; try reflexivity. now rewrite IH. Qed.

  (* C18 for semantic tokens (before the final sort, which only depends on the order of start bytes) *)
  Theorem tokens_body_equivariant b0 : forall bs mods, tokens_body bs mods (sb b0) = map st (tokens_body bs mods b0).
  Proof.
    apply (body_ind'
      (fun b => forall bs mods, tokens_body bs mods (sb b) = map st (tokens_body bs mods b))
      (fun k => forall bs mods, block_tokens tokens_body bs mods (sk k) = map st (block_tokens tokens_body bs mods k))).
    - intros attrs blocks r e IH bs mods. rewrite shift_body_eq. cbn [tokens_body]. rewrite map_app. f_equal.
      + induction attrs as [|a rest IHa]; cbn [map flat_map]; [reflexivity|].
        rewrite map_app, IHa. f_equal. cbn [shift_attr a_name a_name_rng].
        destruct (token_attr_schema bs (a_name a)); reflexivity.
      + induction IH as [|k rest Hk _ IHr]; cbn [map blocks_tokens]; [reflexivity|]. now rewrite map_app, Hk, IHr.
    - intros t ls lrs tr o c r d kb IH bs mods. unfold block_tokens. rewrite k_type_shift.
      destruct (alookup _ (bs_blocks bs)) as [sc|]; [|reflexivity].
      cbn [shift_block k_type_rng k_label_rngs map]. f_equal. rewrite map_app, label_tokens_shift. f_equal.
      change (Block t ls (map sr lrs) (sr tr) (sr o) (sr c) (sr r) (sr d) (sb kb)) with (sk (Block t ls lrs tr o c r d kb)).
      rewrite merge_shift. destruct (merge_block_body_schemas sc _) as [m res]. apply IH.
  Qed.
End P.
