(* Properties of the value-level target descent (Model/ValueTargets.v):
   - every target collected for an addressable attribute carries the attribute's address; every
     nested target extends its parent's address by exactly one step, at any depth;
   - every target's range lies inside the range of the value (or item) it was collected from,
     nested ranges inside their parent's;
   - without an address, and without reference declarations, a value declares nothing;
   - the steps are the element's position / written key / declared attribute;
   - the statement is false for constraints that contain a Reference with an Address below an
     addressable collection (witness below). *)
From Coq Require Import String List ZArith Arith Bool Lia Permutation.
From HV Require Import Base.Sexp Base.Str Base.SortSpec Base.Pos Model.Addr Model.DepKeys Model.Schema Model.Ref Model.ValueTargets.
Import ListNotations.
Open Scope string_scope.
Open Scope list_scope.

(* ---------------- ranges ---------------- *)
Definition inside (a b : range) : Prop :=
  r_file a = r_file b /\ (p_byte (r_start b) <= p_byte (r_start a))%Z /\ (p_byte (r_end a) <= p_byte (r_end b))%Z.

Lemma inside_refl r : inside r r.
Proof. unfold inside; repeat split; lia. Qed.

Lemma inside_trans a b c : inside a b -> inside b c -> inside a c.
Proof. unfold inside; intros (F1 & S1 & E1) (F2 & S2 & E2); repeat split; [congruence|lia|lia]. Qed.

(* what the parser guarantees about the tree: children inside their parents, a key in front of its value *)
Inductive wf_expr : texpr -> Prop :=
| WEmpty r : (p_byte (r_start r) <= p_byte (r_end r))%Z -> wf_expr (EEmpty r)
| WFor r v : wf_expr (EFor r v)
| WTrav r v a : wf_expr (ETrav r v a)
| WLeaf r v : wf_expr (ELeaf r v)
| WTuple r v elems :
    (p_byte (r_start r) <= p_byte (r_end r))%Z ->
    Forall (fun x => inside (e_rng x) r /\ wf_expr x) elems -> wf_expr (ETuple r v elems)
| WObject r v items :
    (p_byte (r_start r) <= p_byte (r_end r))%Z ->
    Forall (fun i => inside (ti_krng i) r /\ inside (e_rng (ti_val i)) r /\
                     (p_byte (r_start (ti_krng i)) <= p_byte (r_start (e_rng (ti_val i))))%Z /\
                     wf_expr (ti_val i)) items -> wf_expr (EObject r v items).

Definition start_le_end (e : texpr) : Prop := (p_byte (r_start (e_rng e)) <= p_byte (r_end (e_rng e)))%Z.

(* ---------------- the invariant on targets ---------------- *)
(* [good a outer t]: t is declared at address a, its range lies inside outer, and every nested
   target is declared one step below a, inside t's own range - recursively *)
Inductive good : address -> range -> target -> Prop :=
| Good a outer la fr sc r df ty nm nested :
    inside r outer ->
    Forall (fun n => exists s, good (a ++ [s]) r n) nested ->
    good a outer (Target a la fr sc (Some r) df ty nm nested).

Lemma good_weaken a r1 r2 t : inside r1 r2 -> good a r1 t -> good a r2 t.
Proof.
  intros Hi Hg. destruct Hg as [a outer la fr sc r df ty nm nested Hin Hn].
  constructor; [eapply inside_trans; eauto|exact Hn].
Qed.

Definition bound (c : tctx) (e : texpr) : range := match tc_rng c with Some r => r | None => e_rng e end.

(* what a run of the descent must satisfy *)
Definition inv (ctx : option tctx) (e : texpr) (ts : list target) : Prop :=
  match ctx with
  | None => ts = []
  | Some c => inside (e_rng e) (bound c e) -> Forall (good (tc_addr c) (bound c e)) ts
  end.

(* ---------------- constraints without reference declarations ---------------- *)
Fixpoint no_ref_decl (c : constraint) : bool :=
  let fix all (l : list constraint) : bool := match l with [] => true | a :: r => no_ref_decl a && all r end in
  let fix attrs (l : list (string * attr_schema)) : bool :=
    match l with [] => true | (_, AttrSchema _ _ _ c _ _ _ _) :: r => no_ref_decl c && attrs r end in
  match c with
  | CRef _ _ _ (Some _) => false
  | CList (Some e) _ _ | CSet (Some e) _ _ | CMap (Some e) _ _ _ _ => no_ref_decl e
  | CTuple es | COneOf es => all es
  | CObject ats _ _ _ => attrs ats
  | _ => true
  end.

Definition no_ref_decl_opt (c : option constraint) : bool := match c with Some c => no_ref_decl c | None => true end.

Lemma no_ref_all es :
  (fix all (l : list constraint) : bool := match l with [] => true | a :: r => no_ref_decl a && all r end) es = true ->
  Forall (fun c => no_ref_decl c = true) es.
Proof.
  induction es as [|a r IH]; intros H; constructor.
  - apply andb_prop in H. tauto.
  - apply IH. apply andb_prop in H. tauto.
Qed.

Lemma no_ref_tuple es : no_ref_decl (CTuple es) = true -> Forall (fun c => no_ref_decl c = true) es.
Proof. intros H. apply no_ref_all. exact H. Qed.

Lemma no_ref_oneof es : no_ref_decl (COneOf es) = true -> Forall (fun c => no_ref_decl c = true) es.
Proof. intros H. apply no_ref_all. exact H. Qed.

Lemma no_ref_object ats a b c : no_ref_decl (CObject ats a b c) = true ->
  Forall (fun p => no_ref_decl (snd p) = true) (obj_attrs ats).
Proof.
  cbn [no_ref_decl]. induction ats as [|[n s] r IH]; intros H; cbn [obj_attrs map]; constructor.
  - destruct s. cbn [snd fst as_cons]. apply andb_prop in H. tauto.
  - apply IH. destruct s. apply andb_prop in H. tauto.
Qed.

Lemma no_ref_lit_attrs ats : Forall (fun p => no_ref_decl (snd p) = true) (lit_attrs ats).
Proof. unfold lit_attrs. induction ats as [|a r IH]; cbn [map]; constructor; [reflexivity|exact IH]. Qed.

Lemma no_ref_lit_types ts : Forall (fun c => no_ref_decl c = true) (map (fun t => CLitType t false) ts).
Proof. induction ts as [|a r IH]; cbn [map]; constructor; [reflexivity|exact IH]. Qed.

(* ---------------- list helpers ---------------- *)
Lemma concat_opt_Forall {A} (P : A -> Prop) (l : list (option (list A))) ts :
  concat_opt l = Some ts -> Forall (fun o => forall x, o = Some x -> Forall P x) l -> Forall P ts.
Proof.
  revert ts. induction l as [|o r IH]; intros ts H HF.
  - cbn in H. injection H as <-. constructor.
  - inversion HF as [|? ? Ho Hr]; subst. cbn [concat_opt] in H. destruct o as [a|]; [|discriminate].
    destruct (concat_opt r) as [b|] eqn:E; [|discriminate]. injection H as <-.
    apply Forall_app. split; [apply Ho; reflexivity|apply IH; [reflexivity|exact Hr]].
Qed.

Lemma concat_opt_nil {A} (l : list (option (list A))) ts :
  concat_opt l = Some ts -> Forall (fun o => forall x, o = Some x -> x = []) l -> ts = [].
Proof.
  revert ts. induction l as [|o r IH]; intros ts H HF.
  - cbn in H. now injection H as <-.
  - inversion HF as [|? ? Ho Hr]; subst. cbn [concat_opt] in H. destruct o as [a|]; [|discriminate].
    destruct (concat_opt r) as [b|] eqn:E; [|discriminate]. injection H as <-.
    rewrite (Ho a eq_refl), (IH b eq_refl Hr). reflexivity.
Qed.

Lemma mapi_Forall {A B} (Q : B -> Prop) (f : nat -> A -> B) l : forall i,
  (forall j x, In x l -> Q (f j x)) -> Forall Q (mapi_from f i l).
Proof.
  induction l as [|a r IH]; intros i H; cbn [mapi_from]; constructor.
  - apply H. now left.
  - apply IH. intros j x Hx. apply H. now right.
Qed.

(* positions: the i-th function application sees index i *)
Lemma mapi_Forall_idx {A B} (Q : nat -> B -> Prop) (f : nat -> A -> B) l : forall i,
  (forall j x, nth_error l j = Some x -> Q (i + j)%nat (f (i + j)%nat x)) ->
  forall k y, nth_error (mapi_from f i l) k = Some y -> Q (i + k)%nat y.
Proof.
  induction l as [|a r IH]; intros i H k y Hk.
  - destruct k; discriminate.
  - destruct k as [|k].
    + cbn in Hk. injection Hk as <-. specialize (H 0%nat a eq_refl). rewrite Nat.add_0_r in *. exact H.
    + cbn [mapi_from nth_error] in Hk. replace (i + S k)%nat with (S i + k)%nat by lia.
      apply (IH (S i)); [|exact Hk]. intros j x Hj. replace (S i + j)%nat with (i + S j)%nat by lia.
      apply H. exact Hj.
Qed.

Section StepInv.
  Variable rec : constraint -> option tctx -> texpr -> option (list target).
  Hypothesis Hrec : forall c ctx e ts,
    no_ref_decl c = true -> wf_expr e -> rec c ctx e = Some ts -> inv ctx e ts.

  Lemma bound_push c s rng def e : bound (ctx_push (ctx_copy c) s rng def) e = match rng with Some r => r | None => e_rng e end.
  Proof. reflexivity. Qed.

  Lemma whole_target_good c e t nested :
    Forall (fun n => exists s, good (tc_addr c ++ [s]) (bound c e) n) nested ->
    good (tc_addr c) (bound c e) (whole_target c e t nested).
  Proof. intros H. unfold whole_target, rng_of. fold (bound c e). constructor; [apply inside_refl|exact H]. Qed.

  Lemma plain_target_good c e t : good (tc_addr c) (bound c e) (plain_target c e t).
  Proof. unfold plain_target, rng_of. fold (bound c e). constructor; [apply inside_refl|constructor]. Qed.

  Lemma whole_coll_good mk elem c e nested :
    Forall (fun n => exists s, good (tc_addr c ++ [s]) (bound c e) n) nested ->
    Forall (good (tc_addr c) (bound c e)) (whole_coll mk elem c e nested).
  Proof.
    intros H. unfold whole_coll. destruct (ocons_type elem); [|constructor].
    destruct (tc_as_type c); [|constructor]. constructor; [apply whole_target_good; exact H|constructor].
  Qed.

  (* results of an element visited under a pushed context are nested-good for the parent *)
  Lemma elem_results_good c e s ec x rng def ts :
    no_ref_decl ec = true -> wf_expr x ->
    inside (match rng with Some r => r | None => e_rng x end) (bound c e) ->
    inside (e_rng x) (match rng with Some r => r | None => e_rng x end) ->
    rec ec (Some (ctx_push (ctx_copy c) s rng def)) x = Some ts ->
    Forall (fun n => exists s', good (tc_addr c ++ [s']) (bound c e) n) ts.
  Proof.
    intros Hn Hw Hin Hx Hr. pose proof (Hrec _ _ _ _ Hn Hw Hr) as Hi. cbn [inv] in Hi.
    rewrite bound_push in Hi. specialize (Hi Hx).
    eapply Forall_impl; [|exact Hi]. intros n Hg. exists s. eapply good_weaken; [exact Hin|exact Hg].
  Qed.

  Lemma list_targets_inv elem ctx e ts :
    no_ref_decl_opt elem = true -> wf_expr e -> list_targets rec elem ctx e = Some ts -> inv ctx e ts.
  Proof.
    intros Hn Hw H. unfold list_targets in H.
    assert (Hmain : match e with
                    | ETuple _ _ elems =>
                        match elem with
                        | None => Some []
                        | Some ec =>
                            match concat_opt (mapi_from (fun i x => rec ec (elem_ctx ctx i) x) 0 elems) with
                            | None => None
                            | Some ets => Some (match ctx with None => ets | Some c => whole_coll TList elem c e ets end)
                            end
                        end
                    | _ => Some []
                    end = Some ts -> inv ctx e ts).
    { clear H. intros H. destruct e as [r|r v|r v elems|r v items|r v a|r v];
        try (injection H as <-; destruct ctx; cbn [inv]; [intros _; constructor|reflexivity]).
      destruct elem as [ec|]; [|injection H as <-; destruct ctx; cbn [inv]; [intros _; constructor|reflexivity]].
      destruct (concat_opt _) as [ets|] eqn:E; [|discriminate]. injection H as <-.
      inversion Hw as [| | | |? ? ? Hse HF|]; subst.
      destruct ctx as [c|]; cbn [inv].
      - intros Hb. apply whole_coll_good. eapply concat_opt_Forall; [exact E|].
        apply mapi_Forall. intros j x Hx o Ho. rewrite Forall_forall in HF. destruct (HF x Hx) as (Hix & Hwx).
        unfold elem_ctx in Ho. cbn [option_map] in Ho.
        eapply elem_results_good with (rng := None); [exact Hn|exact Hwx| |apply inside_refl|exact Ho].
        cbn. eapply inside_trans; [exact Hix|exact Hb].
      - eapply concat_opt_nil; [exact E|]. apply mapi_Forall. intros j x Hx o Ho.
        rewrite Forall_forall in HF. destruct (HF x Hx) as (_ & Hwx).
        exact (Hrec _ _ _ _ Hn Hwx Ho). }
    destruct (is_empty_expr e) eqn:Ee; [|exact (Hmain H)].
    destruct ctx as [c|]; [|exact (Hmain H)].
    injection H as <-. cbn [inv]. intros _. apply whole_coll_good. constructor.
  Qed.

  Lemma set_targets_inv elem ctx e ts :
    no_ref_decl_opt elem = true -> wf_expr e -> set_targets rec elem ctx e = Some ts -> inv ctx e ts.
  Proof.
    intros Hn Hw H. unfold set_targets in H.
    destruct ctx as [c|].
    - cbn [inv]. intros _.
      assert (G : ts = whole_coll TSet elem c e [] \/ ts = []).
      { destruct (is_empty_expr e); [injection H as <-; now left|].
        destruct e; try (injection H as <-; now right).
        destruct elem; injection H as <-; [now left|now right]. }
      destruct G as [->| ->]; [apply whole_coll_good; constructor|constructor].
    - cbn [inv].
      assert (G : match e with
                  | ETuple _ _ elems => match elem with None => Some [] | Some ec => concat_opt (map (fun x => rec ec None x) elems) end
                  | _ => Some []
                  end = Some ts).
      { destruct (is_empty_expr e); exact H. }
      destruct e as [r|r v|r v elems|r v items|r v a|r v]; try (now injection G as <-).
      destruct elem as [ec|]; [|now injection G as <-].
      inversion Hw as [| | | |? ? ? Hse HF|]; subst.
      eapply concat_opt_nil; [exact G|]. apply Forall_forall. intros o Ho x ->.
      apply in_map_iff in Ho as (y & Hy & Hiy). rewrite Forall_forall in HF. destruct (HF y Hiy) as (_ & Hwy).
      exact (Hrec _ _ _ _ Hn Hwy Hy).
  Qed.

  Lemma empty_at_inside e : start_le_end e -> inside (empty_range_at (r_file (e_rng e)) (r_start (e_rng e))) (e_rng e).
  Proof. unfold start_le_end, inside, empty_range_at; cbn. intros H. repeat split; lia. Qed.

  Lemma tuple_elems_good cs c e written ets :
    Forall (fun k => no_ref_decl k = true) cs -> start_le_end e ->
    Forall (fun x => inside (e_rng x) (e_rng e) /\ wf_expr x) written ->
    inside (e_rng e) (bound c e) ->
    tuple_elems rec cs (Some c) e written = Some ets ->
    Forall (fun n => exists s, good (tc_addr c ++ [s]) (bound c e) n) ets.
  Proof.
    intros Hn Hse HF Hb H. unfold tuple_elems in H. eapply concat_opt_Forall; [exact H|].
    apply mapi_Forall. intros j ec Hec o Ho. rewrite Forall_forall in Hn.
    unfold elem_ctx in Ho. cbn [option_map] in Ho.
    set (dflt := EEmpty (empty_range_at (r_file (e_rng e)) (r_start (e_rng e)))) in *.
    assert (Hx : inside (e_rng (nth j written dflt)) (e_rng e) /\ wf_expr (nth j written dflt)).
    { destruct (nth_in_or_default j written dflt) as [Hi|Hd].
      - rewrite Forall_forall in HF. apply HF. exact Hi.
      - rewrite Hd. split; [apply empty_at_inside; exact Hse|constructor; cbn; lia]. }
    destruct Hx as (Hix & Hwx).
    eapply elem_results_good with (rng := None); [apply Hn; exact Hec|exact Hwx| |apply inside_refl|exact Ho].
    cbn. eapply inside_trans; [exact Hix|exact Hb].
  Qed.

  Lemma tuple_elems_nil cs e written ets :
    Forall (fun k => no_ref_decl k = true) cs ->
    Forall (fun x => wf_expr x) written ->
    tuple_elems rec cs None e written = Some ets -> ets = [].
  Proof.
    intros Hn HF H. unfold tuple_elems in H. eapply concat_opt_nil; [exact H|].
    apply mapi_Forall. intros j ec Hec o Ho. rewrite Forall_forall in Hn.
    refine (Hrec _ _ _ _ (Hn _ Hec) _ Ho).
    destruct (nth_in_or_default j written (EEmpty (empty_range_at (r_file (e_rng e)) (r_start (e_rng e))))) as [Hi|Hd].
    - rewrite Forall_forall in HF. apply HF. exact Hi.
    - rewrite Hd. constructor. cbn. lia.
  Qed.

  Lemma whole_tuple_good cs c e nested :
    Forall (fun n => exists s, good (tc_addr c ++ [s]) (bound c e) n) nested ->
    Forall (good (tc_addr c) (bound c e)) (whole_tuple cs c e nested).
  Proof.
    intros H. unfold whole_tuple. destruct (all_types cs); [|constructor].
    destruct (tc_as_type c); [|constructor]. constructor; [apply whole_target_good; exact H|constructor].
  Qed.

  Lemma wf_start_le_end e : wf_expr e -> is_empty_expr e = true -> start_le_end e.
  Proof. intros Hw He. destruct e; try discriminate. inversion Hw; subst. assumption. Qed.

  Lemma tuple_targets_inv cs ctx e ts :
    Forall (fun k => no_ref_decl k = true) cs -> wf_expr e ->
    tuple_targets rec cs ctx e = Some ts -> inv ctx e ts.
  Proof.
    intros Hn Hw H. pose proof (wf_start_le_end e Hw) as Hee. unfold tuple_targets in H. destruct ctx as [c|]; cbn [inv].
    - intros Hb. destruct (is_empty_expr e) eqn:Ee.
      + destruct (tuple_elems rec cs (Some c) e []) as [ets|] eqn:E; [|discriminate]. injection H as <-.
        apply whole_tuple_good. eapply tuple_elems_good; [exact Hn|apply Hee; reflexivity|constructor|exact Hb|exact E].
      + destruct (is_for_expr e) eqn:Ef.
        { injection H as <-. constructor; [apply plain_target_good|constructor]. }
        destruct e as [r|r v|r v elems|r v items|r v a|r v]; try (injection H as <-; constructor).
        destruct (tuple_elems rec cs (Some c) (ETuple r v elems) elems) as [ets|] eqn:E; [|discriminate]. injection H as <-.
        inversion Hw as [| | | |? ? ? Hse HF|]; subst.
        apply whole_tuple_good. eapply tuple_elems_good; [exact Hn|exact Hse|exact HF|exact Hb|exact E].
    - destruct e as [r|r v|r v elems|r v items|r v a|r v]; try (now injection H as <-).
      inversion Hw as [| | | |? ? ? Hse HF|]; subst.
      eapply tuple_elems_nil; [exact Hn| |exact H].
      eapply Forall_impl; [|exact HF]. intros x (_ & Hx). exact Hx.
  Qed.

  Lemma item_results_good c e s ec i ts :
    no_ref_decl ec = true ->
    inside (ti_krng i) (e_rng e) -> inside (e_rng (ti_val i)) (e_rng e) ->
    (p_byte (r_start (ti_krng i)) <= p_byte (r_start (e_rng (ti_val i))))%Z -> wf_expr (ti_val i) ->
    inside (e_rng e) (bound c e) ->
    rec ec (item_ctx (Some c) s i) (ti_val i) = Some ts ->
    Forall (fun n => exists s', good (tc_addr c ++ [s']) (bound c e) n) ts.
  Proof.
    intros Hn Hk Hv Hkv Hw Hb Hr. unfold item_ctx in Hr. cbn [option_map] in Hr.
    eapply elem_results_good with (rng := Some (range_between (ti_krng i) (e_rng (ti_val i)))); [exact Hn|exact Hw| | |exact Hr].
    - eapply inside_trans; [|exact Hb]. destruct Hk as (Fk & Sk & Ek), Hv as (Fv & Sv & Ev).
      unfold inside, range_between; cbn. repeat split; [exact Fk|lia|lia].
    - destruct Hk as (Fk & Sk & Ek), Hv as (Fv & Sv & Ev).
      unfold inside, range_between; cbn. repeat split; [congruence|lia|lia].
  Qed.

  Lemma map_targets_inv elem ctx e ts :
    no_ref_decl_opt elem = true -> wf_expr e -> map_targets rec elem ctx e = Some ts -> inv ctx e ts.
  Proof.
    intros Hn Hw H. unfold map_targets in H.
    assert (Hmain : match e with
                    | EObject _ _ items =>
                        match elem with
                        | None => Some []
                        | Some ec =>
                            match concat_opt (map (fun i => match ti_key i with
                                                            | None => Some []
                                                            | Some k => rec ec (item_ctx ctx (SIdxStr k) i) (ti_val i)
                                                            end) items) with
                            | None => None
                            | Some ets => let s := sort_targets ets in
                                          Some (match ctx with None => s | Some c => whole_coll TMap elem c e s end)
                            end
                        end
                    | _ => Some []
                    end = Some ts -> inv ctx e ts).
    { clear H. intros H. destruct e as [r|r v|r v elems|r v items|r v a|r v];
        try (injection H as <-; destruct ctx; cbn [inv]; [intros _; constructor|reflexivity]).
      destruct elem as [ec|]; [|injection H as <-; destruct ctx; cbn [inv]; [intros _; constructor|reflexivity]].
      destruct (concat_opt _) as [ets|] eqn:E; [|discriminate]. cbn zeta in H. injection H as <-.
      inversion Hw as [| | | | |? ? ? Hse HF]; subst.
      destruct ctx as [c|]; cbn [inv].
      - intros Hb. apply whole_coll_good.
        assert (G : Forall (fun n => exists s, good (tc_addr c ++ [s]) (bound c (EObject r v items)) n) ets).
        { eapply concat_opt_Forall; [exact E|]. apply Forall_forall. intros o Ho x ->.
          apply in_map_iff in Ho as (i & Hi & Hin). rewrite Forall_forall in HF.
          destruct (HF i Hin) as (Hk & Hv & Hkv & Hwi).
          destruct (ti_key i) as [k|]; [|injection Hi as <-; constructor].
          eapply item_results_good; [exact Hn|exact Hk|exact Hv|exact Hkv|exact Hwi|exact Hb|exact Hi]. }
        unfold sort_targets. rewrite Forall_forall in *. intros n Hin. apply G.
        eapply Permutation_in; [apply Permutation_sym, stable_sort_perm|exact Hin].
      - assert (G : ets = []).
        { eapply concat_opt_nil; [exact E|]. apply Forall_forall. intros o Ho x ->.
          apply in_map_iff in Ho as (i & Hi & Hin). rewrite Forall_forall in HF.
          destruct (HF i Hin) as (_ & _ & _ & Hwi).
          destruct (ti_key i) as [k|]; [|now injection Hi as <-].
          exact (Hrec _ _ _ _ Hn Hwi Hi). }
        subst ets. reflexivity. }
    destruct (is_empty_expr e) eqn:Ee; [|exact (Hmain H)].
    destruct ctx as [c|]; [|exact (Hmain H)].
    injection H as <-. cbn [inv]. intros _. apply whole_coll_good. constructor.
  Qed.

  (* ---- objects ---- *)
  Lemma declared_from names items : forall acc p,
    In p (declared names items acc) -> In p acc \/ In (snd p) items.
  Proof.
    induction items as [|i r IH]; intros acc p Hp; cbn [declared] in Hp; [now left|].
    destruct (ti_key i) as [k|].
    - destruct (existsb (String.eqb k) names).
      + destruct (IH _ _ Hp) as [Hq|Hq]; [|right; now right].
        destruct Hq as [<-|Hq]; [right; now left|]. apply filter_In in Hq. left. tauto.
      + destruct (IH _ _ Hp) as [Hq|Hq]; [now left|right; now right].
    - destruct (IH _ _ Hp) as [Hq|Hq]; [now left|right; now right].
  Qed.

  Lemma lookup_item_in l k i : lookup_item l k = Some i -> exists n, In (n, i) l.
  Proof.
    induction l as [|[n j] r IH]; cbn [lookup_item]; [discriminate|].
    destruct (String.eqb n k); intros H.
    - injection H as ->. exists n. now left.
    - destruct (IH H) as (m & Hm). exists m. now right.
  Qed.

  Definition item_ok (e : texpr) (i : titem) : Prop :=
    inside (ti_krng i) (e_rng e) /\ inside (e_rng (ti_val i)) (e_rng e) /\
    (p_byte (r_start (ti_krng i)) <= p_byte (r_start (e_rng (ti_val i))))%Z /\ wf_expr (ti_val i).

  Lemma object_attrs_good ats c e decl ets :
    Forall (fun p => no_ref_decl (snd p) = true) ats -> start_le_end e ->
    (forall p, In p decl -> item_ok e (snd p)) ->
    inside (e_rng e) (bound c e) ->
    object_attrs rec ats (Some c) e decl = Some ets ->
    Forall (fun n => exists s, good (tc_addr c ++ [s]) (bound c e) n) ets.
  Proof.
    intros Hn Hse Hd Hb H. unfold object_attrs in H. eapply concat_opt_Forall; [exact H|].
    apply Forall_forall. intros o Ho x ->. apply in_map_iff in Ho as (a & Ha & Hin).
    rewrite Forall_forall in Hn. specialize (Hn a Hin).
    destruct (lookup_item decl (fst a)) as [i|] eqn:El.
    - destruct (lookup_item_in _ _ _ El) as (n & Hni). destruct (Hd _ Hni) as (Hk & Hv & Hkv & Hwi). cbn [snd] in *.
      eapply item_results_good; [exact Hn|exact Hk|exact Hv|exact Hkv|exact Hwi|exact Hb|exact Ha].
    - cbn [option_map] in Ha.
      eapply elem_results_good with (rng := None); [exact Hn| | |apply inside_refl|exact Ha].
      + constructor. cbn. lia.
      + cbn. eapply inside_trans; [apply empty_at_inside; exact Hse|exact Hb].
  Qed.

  Lemma object_attrs_nil ats e decl ets :
    Forall (fun p => no_ref_decl (snd p) = true) ats ->
    (forall p, In p decl -> wf_expr (ti_val (snd p))) ->
    object_attrs rec ats None e decl = Some ets -> ets = [].
  Proof.
    intros Hn Hd H. unfold object_attrs in H. eapply concat_opt_nil; [exact H|].
    apply Forall_forall. intros o Ho x ->. apply in_map_iff in Ho as (a & Ha & Hin).
    rewrite Forall_forall in Hn. specialize (Hn a Hin).
    destruct (lookup_item decl (fst a)) as [i|] eqn:El.
    - destruct (lookup_item_in _ _ _ El) as (n & Hni). exact (Hrec _ _ _ _ Hn (Hd _ Hni) Ha).
    - cbn [option_map] in Ha. refine (Hrec _ _ _ _ Hn _ Ha). constructor. cbn. lia.
  Qed.

  Lemma whole_object_good ats c e nested :
    Forall (fun n => exists s, good (tc_addr c ++ [s]) (bound c e) n) nested ->
    Forall (good (tc_addr c) (bound c e)) (whole_object ats c e nested).
  Proof.
    intros H. unfold whole_object. destruct (tc_as_type c); [|constructor].
    destruct (attrs_type ats); [|constructor]. constructor; [apply whole_target_good; exact H|constructor].
  Qed.

  Lemma object_targets_inv ats ctx e ts :
    Forall (fun p => no_ref_decl (snd p) = true) ats -> wf_expr e ->
    object_targets rec ats ctx e = Some ts -> inv ctx e ts.
  Proof.
    intros Hn Hw H. pose proof (wf_start_le_end e Hw) as Hee. unfold object_targets in H. destruct ctx as [c|]; cbn [inv].
    - intros Hb. destruct (is_empty_expr e) eqn:Ee.
      + destruct (object_attrs rec ats (Some c) e []) as [ets|] eqn:E; [|discriminate]. injection H as <-.
        apply whole_object_good. eapply object_attrs_good; [exact Hn|apply Hee; reflexivity| |exact Hb|exact E].
        intros p [].
      + destruct (is_for_expr e) eqn:Ef.
        { injection H as <-. constructor; [apply plain_target_good|constructor]. }
        destruct e as [r|r v|r v elems|r v items|r v a|r v]; try (injection H as <-; constructor).
        destruct (object_attrs rec ats (Some c) (EObject r v items) _) as [ets|] eqn:E; [|discriminate]. injection H as <-.
        inversion Hw as [| | | | |? ? ? Hse HF]; subst.
        apply whole_object_good. eapply object_attrs_good; [exact Hn|exact Hse| |exact Hb|exact E].
        intros p Hp. destruct (declared_from _ _ _ _ Hp) as [[]|Hi]. rewrite Forall_forall in HF. exact (HF _ Hi).
    - destruct e as [r|r v|r v elems|r v items|r v a|r v]; try (now injection H as <-).
      inversion Hw as [| | | | |? ? ? Hse HF]; subst.
      eapply object_attrs_nil; [exact Hn| |exact H].
      intros p Hp. destruct (declared_from _ _ _ _ Hp) as [[]|Hi]. rewrite Forall_forall in HF.
      destruct (HF _ Hi) as (_ & _ & _ & Hwi). exact Hwi.
  Qed.

  Lemma inv_nil ctx e : inv ctx e [].
  Proof. destruct ctx; cbn [inv]; [intros _; constructor|reflexivity]. Qed.

  Lemma by_type_inv typ ctx e ts : wf_expr e -> by_type rec typ ctx e = Some ts -> inv ctx e ts.
  Proof.
    intros Hw H. unfold by_type in H. destruct typ as [| | | | |el|el|el|tys|ats];
      try (injection H as <-; apply inv_nil).
    - eapply (list_targets_inv (Some (CLitType el false))); [reflexivity|exact Hw|exact H].
    - eapply (set_targets_inv (Some (CLitType el false))); [reflexivity|exact Hw|exact H].
    - eapply (map_targets_inv (Some (CLitType el false))); [reflexivity|exact Hw|exact H].
    - eapply tuple_targets_inv; [apply no_ref_lit_types|exact Hw|exact H].
    - eapply object_targets_inv; [apply no_ref_lit_attrs|exact Hw|exact H].
  Qed.

  Lemma typed_targets_inv is_any t ctx e ts : wf_expr e -> typed_targets rec is_any t ctx e = Some ts -> inv ctx e ts.
  Proof.
    intros Hw H. unfold typed_targets in H. destruct ctx as [c|]; [|injection H as <-; reflexivity].
    destruct (tc_addr c) as [|s0 a0] eqn:Ea; [injection H as <-; apply inv_nil|].
    destruct (negb (tc_as_type c)); [injection H as <-; apply inv_nil|].
    assert (Hp : inv (Some c) e [plain_target c e (effective_type t e)]).
    { cbn [inv]. intros _. constructor; [apply plain_target_good|constructor]. }
    destruct is_any.
    - destruct (is_prim (effective_type t e) || is_dyn (effective_type t e)).
      + injection H as <-. exact Hp.
      + eapply by_type_inv; [exact Hw|exact H].
    - destruct (is_prim (effective_type t e)).
      + destruct (is_empty_expr e); [injection H as <-; exact Hp|].
        destruct (e_vt e) as [t'|]; [|injection H as <-; apply inv_nil].
        destruct (ty_eqb t' (effective_type t e)); injection H as <-; [exact Hp|apply inv_nil].
      + eapply by_type_inv; [exact Hw|exact H].
  Qed.

  Lemma one_of_step c r ctx e ts :
    one_of rec (c :: r) ctx e = Some ts -> one_of rec r ctx e = Some ts \/ rec c ctx e = Some ts.
  Proof.
    cbn [one_of]. destruct c; try (intros H; now left);
      (destruct (rec _ ctx e) as [[|t0 l0]|]; intros H; [now left|right; exact H|discriminate]).
  Qed.

  Lemma one_of_inv cs ctx e ts :
    Forall (fun k => no_ref_decl k = true) cs -> wf_expr e -> one_of rec cs ctx e = Some ts -> inv ctx e ts.
  Proof.
    induction cs as [|c r IH]; intros Hn Hw H.
    - cbn in H. injection H as <-. apply inv_nil.
    - inversion Hn as [|? ? Hc Hr]; subst. destruct (one_of_step _ _ _ _ _ H) as [H'|H'].
      + apply IH; assumption.
      + exact (Hrec _ _ _ _ Hc Hw H').
  Qed.

  Lemma step_targets_inv c ctx e ts :
    no_ref_decl c = true -> wf_expr e -> step_targets rec c ctx e = Some ts -> inv ctx e ts.
  Proof.
    intros Hn Hw H. destruct c as [t s|t s|v t d|k n|s t n a| |el mn mx|el mn mx|es|el n i mn mx|ats nl n i|cs];
      cbn [step_targets] in H.
    - eapply typed_targets_inv; eauto.
    - eapply typed_targets_inv; eauto.
    - injection H as <-. apply inv_nil.
    - injection H as <-. apply inv_nil.
    - destruct a as [sc|]; [discriminate Hn|]. injection H as <-. apply inv_nil.
    - injection H as <-. apply inv_nil.
    - eapply list_targets_inv; [|exact Hw|exact H]. destruct el; exact Hn.
    - eapply set_targets_inv; [|exact Hw|exact H]. destruct el; exact Hn.
    - eapply tuple_targets_inv; [apply no_ref_tuple; exact Hn|exact Hw|exact H].
    - eapply map_targets_inv; [|exact Hw|exact H]. destruct el; exact Hn.
    - eapply object_targets_inv; [eapply no_ref_object; exact Hn|exact Hw|exact H].
    - eapply one_of_inv; [apply no_ref_oneof; exact Hn|exact Hw|exact H].
  Qed.
End StepInv.

(* ---------------- the descent as a whole ---------------- *)
Theorem value_targets_inv fuel : forall c ctx e ts,
  no_ref_decl c = true -> wf_expr e -> value_targets fuel c ctx e = Some ts -> inv ctx e ts.
Proof.
  induction fuel as [|n IH]; intros c ctx e ts Hn Hw H; [discriminate|].
  cbn [value_targets] in H. eapply step_targets_inv; [exact IH|exact Hn|exact Hw|exact H].
Qed.

(* an addressable attribute: everything collected is declared at the attribute's address, within the
   attribute's range, nested targets one step below their parents and inside them *)
Theorem attr_targets_nest fuel name attr_rng name_rng aa c e ts a :
  no_ref_decl c = true -> wf_expr e -> inside (e_rng e) attr_rng ->
  resolve_attr_addr name (aa_steps aa) = Some a ->
  attr_targets fuel name attr_rng name_rng (Some aa) c e = Some ts ->
  Forall (good a attr_rng) ts.
Proof.
  intros Hn Hw Hin Ha H. unfold attr_targets in H. destruct (negb (is_targets_expr c)); [injection H as <-; constructor|].
  rewrite Ha in H.
  destruct (value_targets fuel c _ e) as [vs|] eqn:E; [|discriminate]. cbn [option_map] in H. injection H as <-.
  apply Forall_app. split.
  - destruct (aa_as_ref aa); constructor; [|constructor]. constructor; [apply inside_refl|constructor].
  - pose proof (value_targets_inv _ _ _ _ _ Hn Hw E) as Hi.
    destruct (aa_as_type aa || aa_as_ref aa); cbn [inv] in Hi.
    + apply Hi. exact Hin.
    + subst vs. constructor.
Qed.

(* no address, nothing declared (values without reference declarations) *)
Theorem attr_without_address_declares_nothing fuel name attr_rng name_rng c e ts :
  no_ref_decl c = true -> wf_expr e ->
  attr_targets fuel name attr_rng name_rng None c e = Some ts -> ts = [].
Proof.
  intros Hn Hw H. unfold attr_targets in H. destruct (negb (is_targets_expr c)); [now injection H as <-|].
  exact (value_targets_inv _ _ _ _ _ Hn Hw H).
Qed.

(* an address that does not resolve: only the type-less reference target of the attribute itself *)
Theorem attr_unresolved_address fuel name attr_rng name_rng aa c e ts :
  no_ref_decl c = true -> wf_expr e ->
  resolve_attr_addr name (aa_steps aa) = None ->
  attr_targets fuel name attr_rng name_rng (Some aa) c e = Some ts ->
  ts = [] \/ (aa_as_ref aa = true /\ ts = [Target [] [] None (aa_scope aa) (Some attr_rng) (Some name_rng) TNil (aa_name aa) []]).
Proof.
  intros Hn Hw Ha H. unfold attr_targets in H. destruct (negb (is_targets_expr c)); [left; now injection H as <-|].
  rewrite Ha in H. destruct (value_targets fuel c None e) as [vs|] eqn:E; [|discriminate].
  pose proof (value_targets_inv _ _ _ _ _ Hn Hw E) as Hi. cbn [inv] in Hi. subst vs.
  cbn [option_map] in H. injection H as <-. rewrite app_nil_r.
  destruct (aa_as_ref aa); [right; split; reflexivity|now left].
Qed.

(* ---------------- which step an element gets ---------------- *)
Lemma concat_opt_parts {A} (l : list (option (list A))) ts :
  concat_opt l = Some ts -> exists parts, l = map Some parts /\ ts = concat parts.
Proof.
  revert ts. induction l as [|o r IH]; intros ts H.
  - cbn in H. injection H as <-. exists []. split; reflexivity.
  - cbn [concat_opt] in H. destruct o as [a|]; [|discriminate].
    destruct (concat_opt r) as [b|] eqn:E; [|discriminate]. injection H as <-.
    destruct (IH b eq_refl) as (ps & -> & ->). exists (a :: ps). split; reflexivity.
Qed.

Lemma mapi_nth {A B} (f : nat -> A -> B) l : forall i k,
  nth_error (mapi_from f i l) k = option_map (f (i + k)%nat) (nth_error l k).
Proof.
  induction l as [|a r IH]; intros i k; [destruct k; reflexivity|].
  destruct k as [|k]; cbn [mapi_from nth_error option_map]; [now rewrite Nat.add_0_r|].
  rewrite IH. now replace (S i + k)%nat with (i + S k)%nat by lia.
Qed.

(* list index = source order: the k-th written element is visited under the list's address extended
   by the index k, and the list target's nested targets are the elements' targets in that order *)
Theorem list_elements_by_position n ec c r v elems ts :
  value_targets (S n) (CList (Some ec) 0 0) (Some c) (ETuple r v elems) = Some ts ->
  exists parts,
    ts = whole_coll TList (Some ec) c (ETuple r v elems) (concat parts) /\
    length parts = length elems /\
    forall k x, nth_error elems k = Some x ->
      value_targets n ec (Some (ctx_push (ctx_copy c) (SIdxNum (Z.of_nat k)) None None)) x = Some (nth k parts []).
Proof.
  cbn [value_targets step_targets]. unfold list_targets. cbn [is_empty_expr].
  destruct (concat_opt _) as [ets|] eqn:E; [|discriminate]. intros H. injection H as <-.
  destruct (concat_opt_parts _ _ E) as (parts & Hm & ->). exists parts. split; [reflexivity|].
  assert (Hl : length parts = length elems).
  { apply (f_equal (@length _)) in Hm. rewrite map_length in Hm.
    clear -Hm. revert Hm. generalize 0%nat. induction elems as [|a l IH] in parts |- *; intros i H; cbn in H.
    - destruct parts; [reflexivity|discriminate].
    - destruct parts as [|p ps]; [discriminate|]. cbn. f_equal. apply (IH ps (S i)). cbn in H. now injection H. }
  split; [exact Hl|]. intros k x Hk.
  pose proof (mapi_nth (fun i y => value_targets n ec (elem_ctx (Some c) i) y) elems 0 k) as Hn.
  rewrite Hm, Hk in Hn. cbn [option_map Nat.add elem_ctx] in Hn.
  rewrite nth_error_map in Hn. destruct (nth_error parts k) as [p|] eqn:Ep; [|discriminate].
  cbn in Hn. injection Hn as Hn. rewrite <- Hn. f_equal. symmetry. apply nth_error_nth. exact Ep.
Qed.

(* map key = written key: an item with the raw key k is visited under the map's address extended by
   the string index k, with the item (key .. value) as its range and the key as its definition *)
Theorem map_items_by_key n ec c r v items ts :
  value_targets (S n) (CMap (Some ec) "" false 0 0) (Some c) (EObject r v items) = Some ts ->
  exists parts,
    ts = whole_coll TMap (Some ec) c (EObject r v items) (sort_targets (concat parts)) /\
    length parts = length items /\
    forall j i, nth_error items j = Some i ->
      match ti_key i with
      | None => nth j parts [] = []
      | Some k => value_targets n ec (Some (ctx_push (ctx_copy c) (SIdxStr k)
                                            (Some (range_between (ti_krng i) (e_rng (ti_val i)))) (Some (ti_krng i))))
                                (ti_val i) = Some (nth j parts [])
      end.
Proof.
  cbn [value_targets step_targets]. unfold map_targets. cbn [is_empty_expr].
  destruct (concat_opt _) as [ets|] eqn:E; [|discriminate]. cbn zeta. intros H. injection H as <-.
  destruct (concat_opt_parts _ _ E) as (parts & Hm & ->). exists parts. split; [reflexivity|].
  assert (Hl : length parts = length items).
  { apply (f_equal (@length _)) in Hm. rewrite !map_length in Hm. symmetry. exact Hm. }
  split; [exact Hl|]. intros j i Hj.
  apply (f_equal (fun l => nth_error l j)) in Hm. rewrite !nth_error_map, Hj in Hm. cbn [option_map] in Hm.
  destruct (nth_error parts j) as [p|] eqn:Ep; [|discriminate]. cbn in Hm. injection Hm as Hm.
  rewrite (nth_error_nth _ _ [] Ep). destruct (ti_key i) as [k|].
  - exact Hm.
  - now injection Hm as <-.
Qed.

(* ---------------- the statement fails below reference declarations ---------------- *)
Definition rz (a b c d e f : Z) : range :=
  {| r_file := "main.tf"; r_start := {| p_line := a; p_col := b; p_byte := c |}; r_end := {| p_line := d; p_col := e; p_byte := f |} |}.

Definition witness_cons : constraint :=
  CList (Some (COneOf [CRef "" TNil "" (Some "provider"); CLitType TStr false])) 0 0.
Definition witness_expr : texpr :=
  ETuple (rz 1 8 7 1 23 22) None
    [ETrav (rz 1 9 8 1 17 16) None (Some [SRoot "aws"; SAttr "west"]); ELeaf (rz 1 19 18 1 22 21) (Some TStr)].
Definition witness_addr : attr_addr :=
  {| aa_steps := [VStatic "var"; VName]; aa_name := ""; aa_scope := ""; aa_as_type := true; aa_as_ref := false |}.

(* attr = [aws.west, "x"] under list(one-of(reference declaring a provider alias, string)): the list's
   target var.attr has the nested target aws.west, which is not one step below var.attr *)
Theorem nested_reference_declaration_refuted :
  exists t n,
    attr_targets 10 "attr" (rz 1 1 0 1 23 22) (rz 1 1 0 1 5 4) (Some witness_addr) witness_cons witness_expr = Some [t] /\
    In n (t_nested t) /\ wf_expr witness_expr /\ ~ (exists s, t_addr n = t_addr t ++ [s]).
Proof.
  eexists. eexists. split; [vm_compute; reflexivity|]. split; [left; reflexivity|]. split.
  - constructor; [cbn; lia|]. repeat constructor; cbn; lia.
  - intros (s & H). cbn in H. discriminate H.
Qed.

(* the premises of attr_targets_nest are satisfiable and the conclusion is not empty *)
Definition sample_cons : constraint :=
  CLitType (TObject [("tags", (TMap TStr, false)); ("zones", (TList TStr, false))]) false.
Definition sample_expr : texpr :=
  EObject (rz 1 8 7 1 60 59) None
    [TItem (Some "zones") (rz 1 10 9 1 15 14) (ETuple (rz 1 18 17 1 28 27) None [ELeaf (rz 1 19 18 1 22 21) (Some TStr); ELeaf (rz 1 24 23 1 27 26) (Some TStr)]);
     TItem (Some "tags") (rz 1 30 29 1 34 33) (EObject (rz 1 37 36 1 58 57) None [TItem (Some "q k") (rz 1 39 38 1 44 43) (ELeaf (rz 1 47 46 1 50 49) (Some TStr))])].

Example attr_targets_nest_applies :
  exists ts, attr_targets 10 "attr" (rz 1 1 0 1 60 59) (rz 1 1 0 1 5 4) (Some witness_addr) sample_cons sample_expr = Some ts /\
             length ts = 1%nat /\ no_ref_decl sample_cons = true /\ wf_expr sample_expr /\
             inside (e_rng sample_expr) (rz 1 1 0 1 60 59) /\
             map (fun t => map (fun n => (addr_string (t_addr n), length (t_nested n))) (t_nested t)) ts =
               [[(("var.attr.tags")%string, 1%nat); (("var.attr.zones")%string, 2%nat)]].
Proof.
  eexists. split; [vm_compute; reflexivity|]. split; [reflexivity|]. split; [reflexivity|]. split.
  - constructor; [cbn; lia|]. repeat constructor; cbn; try lia.
  - split; [unfold inside; cbn; repeat split; lia|reflexivity].
Qed.
