(* Tokens inside attribute values (Model/ValueTokens.v): every token produced for an expression lies inside
   that expression's range, at any depth and for every constraint - so the tokens of two values that the
   parser keeps apart never overlap, and no value token reaches outside its attribute. *)
From Coq Require Import String List ZArith Bool Lia.
From HV Require Import Base.Sexp Base.Str Base.SortSpec Base.Pos Model.Addr Model.DepKeys Model.Schema Model.Ast Model.Merge
                       Model.Ref Model.Collect Model.Origins Model.ValueTargets Model.BodyQueries Model.ValueTokens
                       Proofs.ValueTargetsProofs.
Import ListNotations.
Open Scope string_scope.
Open Scope list_scope.

Definition step_rng (s : tstep) : range :=
  match s with TSRoot r | TSAttr r | TSIdxStr r | TSIdxNum r | TSIdxOther r | TSIdxUnknown r => r end.

(* what the parser guarantees: every part of an expression lies inside it *)
Inductive wf_s : sexpr -> Prop :=
| WfS r vt n : wf_node r n -> wf_s (SE r vt n)
with wf_node : range -> snode -> Prop :=
| WTrav r root steps res : Forall (fun s => inside (step_rng s) r) steps -> wf_node r (NTrav root steps res)
| WLit r t : wf_node r (NLit t)
| WTemplate r lit parts : Forall (fun p => inside (se_rng p) r /\ wf_s p) parts -> wf_node r (NTemplate lit parts)
| WWrap r e : inside (se_rng e) r -> wf_s e -> wf_node r (NWrap e)
| WTuple r elems : Forall (fun p => inside (se_rng p) r /\ wf_s p) elems -> wf_node r (NTuple elems)
| WObject r items : Forall (wf_item r) items -> wf_node r (NObject items)
| WBinary r rt p1 p2 a b : inside (se_rng a) r -> wf_s a -> inside (se_rng b) r -> wf_s b -> wf_node r (NBinary rt p1 p2 a b)
| WUnary r rt p e : inside (se_rng e) r -> wf_s e -> wf_node r (NUnary rt p e)
| WParens r e : inside (se_rng e) r -> wf_s e -> wf_node r (NParens e)
| WCond r c a b : inside (se_rng c) r -> wf_s c -> inside (se_rng a) r -> wf_s a -> inside (se_rng b) r -> wf_s b -> wf_node r (NCond c a b)
| WFor r coll k v c :
    inside (se_rng coll) r -> wf_s coll ->
    (forall x, k = Some x -> inside (se_rng x) r /\ wf_s x) ->
    inside (se_rng v) r -> wf_s v ->
    (forall x, c = Some x -> inside (se_rng x) r /\ wf_s x) -> wf_node r (NFor coll k v c)
| WIndex r k : inside (se_rng k) r -> wf_s k -> wf_node r (NIndex k)
| WCall r name nr args : inside nr r -> Forall (fun p => inside (se_rng p) r /\ wf_s p) args -> wf_node r (NCall name nr args)
| WOther r : wf_node r NOther
with wf_item : range -> sitem -> Prop :=
| WItem r kr k v :
    inside kr r -> inside (se_rng v) r -> wf_s v ->
    (forall pe, k = SKParens pe -> inside (se_rng pe) r /\ wf_s pe) -> wf_item r (SItem kr k v).

Definition toks_inside (r : range) (res : tres) : Prop :=
  forall ts, res = Some (Some ts) -> Forall (fun t => inside (vk_rng t) r) ts.

Lemma toks_inside_ret r l : Forall (fun t => inside (vk_rng t) r) l -> toks_inside r (ret l).
Proof. intros H ts E. injection E as <-. exact H. Qed.

Lemma toks_inside_nil r : toks_inside r (ret []).
Proof. apply toks_inside_ret. constructor. Qed.

Lemma toks_inside_delegated r : toks_inside r (Some None).
Proof. intros ts E. discriminate. Qed.

Lemma toks_inside_weaken r1 r2 res : inside r1 r2 -> toks_inside r1 res -> toks_inside r2 res.
Proof.
  intros Hi H ts E. eapply Forall_impl; [|exact (H ts E)]. intros t Ht. exact (inside_trans _ _ _ Ht Hi).
Qed.

Lemma bind_all_inside r l : Forall (toks_inside r) l -> toks_inside r (bind_all l).
Proof.
  induction l as [|x l' IH]; intros HF; [apply toks_inside_nil|].
  inversion HF as [|? ? Hx Hl]; subst. specialize (IH Hl). cbn [bind_all].
  destruct x as [[a|]|].
  - destruct (bind_all l') as [[b|]|] eqn:E; intros ts Ets; try discriminate.
    injection Ets as <-. apply Forall_app. split; [apply Hx; reflexivity|apply IH; reflexivity].
  - destruct (bind_all l') as [[b|]|]; intros ts Ets; discriminate.
  - intros ts Ets. discriminate.
Qed.

Lemma shift_start_inside r o : inside r o -> inside (shift_start r 1) o.
Proof. unfold inside, shift_start; cbn. intros (Hf & Hs & He). repeat split; [exact Hf|lia|exact He]. Qed.

Lemma shift_end_inside r o : inside r o -> inside (shift_end r (-1)) o.
Proof. unfold inside, shift_end; cbn. intros (Hf & Hs & He). repeat split; [exact Hf|exact Hs|lia]. Qed.

Lemma step_tokens_inside s o : inside (step_rng s) o -> Forall (fun t => inside (vk_rng t) o) (step_tokens s).
Proof.
  destruct s as [r|r|r|r|r|r]; cbn [step_rng step_tokens]; intros H.
  - apply Forall_cons; [exact H|apply Forall_nil].
  - apply Forall_cons; [apply shift_start_inside; exact H|apply Forall_nil].
  - unfold idx_token. destruct (Z.ltb _ _); [|apply Forall_nil].
    apply Forall_cons; [apply shift_end_inside, shift_start_inside; exact H|apply Forall_nil].
  - unfold idx_token. destruct (Z.ltb _ _); [|apply Forall_nil].
    apply Forall_cons; [apply shift_end_inside, shift_start_inside; exact H|apply Forall_nil].
  - apply Forall_nil.
  - apply Forall_nil.
Qed.

Lemma In_firstn {A} (n : nat) (l : list A) x : In x (firstn n l) -> In x l.
Proof.
  revert l. induction n as [|n IH]; intros [|a l] H; cbn [firstn] in H; try destruct H.
  - left. assumption.
  - right. apply IH. assumption.
Qed.

Section StepInside.
  Variable funcs : fsigs.
  Variable vals : list (range * sexp).
  Variable rec : constraint -> sexpr -> tres.
  Variable rec_type : sexpr -> tres.
  Hypothesis Hrec : forall c e, wf_s e -> toks_inside (se_rng e) (rec c e).
  Hypothesis Hrec_type : forall e, wf_s e -> toks_inside (se_rng e) (rec_type e).

  Lemma rec_in r c e : inside (se_rng e) r -> wf_s e -> toks_inside r (rec c e).
  Proof. intros Hi Hw. eapply toks_inside_weaken; [exact Hi|apply Hrec; exact Hw]. Qed.

  Lemma rec_type_in r e : inside (se_rng e) r -> wf_s e -> toks_inside r (rec_type e).
  Proof. intros Hi Hw. eapply toks_inside_weaken; [exact Hi|apply Hrec_type; exact Hw]. Qed.

  Lemma children_inside r c l : Forall (fun p => inside (se_rng p) r /\ wf_s p) l -> Forall (toks_inside r) (map (rec c) l).
  Proof.
    intros H. induction H as [|x l' (Hi & Hw) _ IH]; cbn [map]; constructor; [apply rec_in; assumption|exact IH].
  Qed.

  Lemma tuple_like_inside r cs l : Forall (fun p => inside (se_rng p) r /\ wf_s p) l -> Forall (toks_inside r) (tuple_like rec cs l).
  Proof.
    intros H. revert cs. induction H as [|x l' (Hi & Hw) _ IH]; intros [|c cs']; cbn [tuple_like]; constructor.
    - apply rec_in; assumption.
    - apply IH.
  Qed.

  Ltac node_of e Hw r vt n Hn := destruct e as [r vt n]; inversion Hw as [? ? ? Hn]; subst; cbn [se_rng se_node se_vt] in *.

  Lemma list_like_inside elem e : wf_s e -> toks_inside (se_rng e) (list_like rec elem e).
  Proof.
    intros Hw. node_of e Hw r vt n Hn. unfold list_like. cbn [se_node].
    destruct n; try apply toks_inside_nil. destruct elems as [|x xs]; [apply toks_inside_nil|].
    destruct elem as [ec|]; [|apply toks_inside_nil]. inversion Hn; subst.
    apply bind_all_inside, children_inside. assumption.
  Qed.

  Lemma map_tokens_inside elem interp e : wf_s e -> toks_inside (se_rng e) (map_tokens rec elem interp e).
  Proof.
    intros Hw. node_of e Hw r vt n Hn. unfold map_tokens. cbn [se_node].
    destruct n; try apply toks_inside_nil. destruct items as [|i0 is0]; [apply toks_inside_nil|].
    destruct elem as [ec|]; [|apply toks_inside_nil]. inversion Hn as [| | | | |? ? HF| | | | | | | |]; subst.
    apply bind_all_inside. apply Forall_forall. intros x Hx. apply in_map_iff in Hx as (i & <- & Hin).
    rewrite Forall_forall in HF. specialize (HF i Hin). inversion HF as [? kr k v Hk Hv Hwv Hp]; subst.
    destruct k as [name|pe|].
    - apply bind_all_inside. apply Forall_cons; [apply toks_inside_ret; apply Forall_cons; [exact Hk|apply Forall_nil]|].
      apply Forall_cons; [apply rec_in; assumption|apply Forall_nil].
    - destruct interp; [|apply toks_inside_nil]. destruct (Hp pe eq_refl) as (Hpi & Hpw).
      apply bind_all_inside. apply Forall_cons; [apply rec_in; assumption|]. apply Forall_cons; [apply rec_in; assumption|apply Forall_nil].
    - apply toks_inside_nil.
  Qed.

  Lemma object_tokens_inside ats interp e : wf_s e -> toks_inside (se_rng e) (object_tokens rec ats interp e).
  Proof.
    intros Hw. node_of e Hw r vt n Hn. unfold object_tokens. cbn [se_node].
    destruct n; try apply toks_inside_nil. destruct items as [|i0 is0]; [apply toks_inside_nil|].
    destruct ats as [|a0 as0]; [apply toks_inside_nil|]. inversion Hn as [| | | | |? ? HF| | | | | | | |]; subst.
    apply bind_all_inside. apply Forall_forall. intros x Hx. apply in_map_iff in Hx as (i & <- & Hin).
    rewrite Forall_forall in HF. specialize (HF i Hin). inversion HF as [? kr k v Hk Hv Hwv Hp]; subst.
    apply bind_all_inside. apply Forall_cons; [|apply Forall_cons; [|apply Forall_nil]].
    - unfold key_paren_tokens. destruct k as [name|pe|]; try apply toks_inside_nil.
      destruct interp; [|apply toks_inside_nil]. destruct (Hp pe eq_refl) as (Hpi & Hpw). apply rec_in; assumption.
    - destruct k as [name|pe|]; try apply toks_inside_nil.
      destruct (alookup name (a0 :: as0)) as [c|]; [|apply toks_inside_nil].
      apply bind_all_inside. apply Forall_cons; [apply toks_inside_ret; apply Forall_cons; [exact Hk|apply Forall_nil]|].
      apply Forall_cons; [apply rec_in; assumption|apply Forall_nil].
  Qed.

  Lemma own_token_inside r t : toks_inside r (ret [tok t r]).
  Proof. apply toks_inside_ret. apply Forall_cons; [cbn; apply inside_refl|apply Forall_nil]. Qed.

  Lemma literal_type_inside t e : wf_s e -> toks_inside (se_rng e) (literal_type_tokens rec t e).
  Proof.
    intros Hw. unfold literal_type_tokens.
    set (typ := if is_dyn t then match se_vt e with Some t' => t' | None => t end else t).
    assert (Hgen : toks_inside (se_rng e)
              (if is_prim typ
               then match se_node e with
                    | NLit lt => if lit_convertible lt typ
                                 then match lt with
                                      | TBool => ret [tok "bool" (se_rng e)] | TNum => ret [tok "number" (se_rng e)]
                                      | TStr => ret [tok "string" (se_rng e)] | _ => ret [] end
                                 else ret []
                    | _ => ret [] end
               else match typ with
                    | TList el | TSet el => match se_node e with NTuple _ => list_like rec (Some (CLitType el false)) e | _ => ret [] end
                    | TTuple ts => match se_node e with
                                   | NTuple ((_ :: _) as elems) =>
                                       match ts with [] => ret [] | _ => bind_all (tuple_like rec (map (fun x => CLitType x false) ts) elems) end
                                   | _ => ret [] end
                    | TMap el => map_tokens rec (Some (CLitType el false)) false e
                    | TObject ats => object_tokens rec (lit_attrs ats) false e
                    | _ => ret [] end)).
    { destruct (is_prim typ).
      - destruct (se_node e); try apply toks_inside_nil.
        destruct (lit_convertible t0 typ); [|apply toks_inside_nil].
        destruct t0; try apply toks_inside_nil; apply own_token_inside.
      - destruct typ; try apply toks_inside_nil.
        + destruct (se_node e) eqn:En; try apply toks_inside_nil. apply list_like_inside; exact Hw.
        + destruct (se_node e) eqn:En; try apply toks_inside_nil. apply list_like_inside; exact Hw.
        + apply map_tokens_inside; exact Hw.
        + destruct e as [r vt n]. inversion Hw as [? ? ? Hn]; subst. cbn [se_node se_rng].
          destruct n; try apply toks_inside_nil. destruct elems as [|x xs]; [apply toks_inside_nil|].
          destruct ts; [apply toks_inside_nil|]. inversion Hn; subst.
          apply bind_all_inside, tuple_like_inside. assumption.
        + apply object_tokens_inside; exact Hw. }
    destruct typ; try exact Hgen.
    destruct (se_node e); try exact Hgen. destruct lit; [apply own_token_inside|exact Hgen].
  Qed.

  Lemma reference_tokens_inside e : wf_s e -> Forall (fun t => inside (vk_rng t) (se_rng e)) (reference_tokens e).
  Proof.
    intros Hw. destruct e as [r vt n]. inversion Hw as [? ? ? Hn]; subst. unfold reference_tokens. cbn [se_node se_rng].
    destruct n; try constructor. destruct resolved; [|constructor]. inversion Hn as [? ? ? ? HF| | | | | | | | | | | | |]; subst.
    clear Hw Hn. induction HF as [|s l Hs _ IH]; cbn [flat_map]; [constructor|].
    apply Forall_app. split; [apply step_tokens_inside; exact Hs|exact IH].
  Qed.

  Lemma function_tokens_inside e : wf_s e -> toks_inside (se_rng e) (function_tokens funcs rec e).
  Proof.
    intros Hw. destruct e as [r vt n]. inversion Hw as [? ? ? Hn]; subst. unfold function_tokens. cbn [se_node se_rng].
    destruct n; try apply toks_inside_nil. inversion Hn as [| | | | | | | | | | | |? ? ? ? Hnr HF|]; subst.
    destruct (alookup name funcs) as [[params varp]|]; [|apply toks_inside_nil].
    assert (Hname : toks_inside r (ret [tok "function-name" name_rng])).
    { apply toks_inside_ret. apply Forall_cons; [exact Hnr|apply Forall_nil]. }
    assert (Hargs : forall ps, Forall (toks_inside r)
              ((fix go (ps : list ty) (l : list sexpr) : list tres :=
                  match l with
                  | [] => []
                  | a :: r0 => match ps with
                               | p :: ps' => rec (CAny p false) a :: go ps' r0
                               | [] => match varp with Some vp => rec (CAny vp false) a :: go [] r0 | None => [] end
                               end
                  end) ps args)).
    { clear Hw Hn. induction HF as [|a l (Hi & Hwa) _ IH]; intros ps.
      - apply Forall_nil.
      - destruct ps as [|p ps'].
        + destruct varp as [vp|].
          * apply Forall_cons; [apply rec_in; assumption|apply IH].
          * apply Forall_nil.
        + apply Forall_cons; [apply rec_in; assumption|apply IH]. }
    destruct params as [|p0 ps0].
    - destruct varp as [vp|]; [|exact Hname].
      apply bind_all_inside. apply Forall_cons; [exact Hname|apply Hargs].
    - apply bind_all_inside. apply Forall_cons; [exact Hname|apply Hargs].
  Qed.

  Lemma any_simple_inside t skip e : wf_s e -> toks_inside (se_rng e) (any_simple funcs rec t skip e).
  Proof.
    intros Hw. unfold any_simple.
    assert (Hfb : toks_inside (se_rng e)
              match reference_tokens e with
              | (_ :: _) as ts => ret ts
              | [] => match function_tokens funcs rec e with
                      | Some (Some []) => literal_type_tokens rec t e
                      | x => x end
              end).
    { pose proof (reference_tokens_inside e Hw) as Hr. destruct (reference_tokens e) as [|t0 l0].
      - pose proof (function_tokens_inside e Hw) as Hf. destruct (function_tokens funcs rec e) as [[[|v l]|]|].
        + apply literal_type_inside; exact Hw.
        + exact Hf.
        + apply toks_inside_delegated.
        + intros ts E; discriminate.
      - apply toks_inside_ret. exact Hr. }
    destruct e as [r vt n]. inversion Hw as [? ? ? Hn]; subst. cbn [se_node se_rng] in *.
    destruct n as [root steps res|t0|lit parts|w|elems|items|rt p1 p2 l0 r0|rt p x|x|c a b|coll key val cond|k|name nrng args|]; try exact Hfb; inversion Hn; subst.
    - (* template *)
      destruct lit.
      + apply literal_type_inside. exact Hw.
      + apply bind_all_inside, children_inside. assumption.
    - apply rec_in; assumption.
    - destruct (prim_conv rt t); [|apply toks_inside_nil]. apply bind_all_inside.
      apply Forall_cons; [apply rec_in; assumption|apply Forall_cons; [apply rec_in; assumption|apply Forall_nil]].
    - destruct (prim_conv rt t); [|apply toks_inside_nil]. apply rec_in; assumption.
    - apply rec_in; assumption.
    - apply bind_all_inside. apply Forall_cons; [apply rec_in; assumption|].
      apply Forall_cons; [apply rec_in; assumption|apply Forall_cons; [apply rec_in; assumption|apply Forall_nil]].
    - (* for *)
      destruct (is_iterable t); [|exact Hfb].
      destruct (match key with Some _ => iter_key_type t | None => Some TDyn end) as [kt|]; [|exact Hfb].
      destruct (iter_val_type t) as [vt'|]; [|exact Hfb].
      apply bind_all_inside. apply Forall_cons; [apply rec_in; assumption|]. apply Forall_cons.
      { destruct key as [k|]; [|apply toks_inside_nil]. match goal with H : forall x, Some k = Some x -> _ |- _ => destruct (H k eq_refl) end. apply rec_in; assumption. }
      apply Forall_cons; [apply rec_in; assumption|]. apply Forall_cons; [|apply Forall_nil].
      destruct cond as [c|]; [|apply toks_inside_nil]. match goal with H : forall x, Some c = Some x -> _ |- _ => destruct (H c eq_refl) end. apply rec_in; assumption.
    - apply rec_in; assumption.
  Qed.

  Lemma any_tokens_inside t skip e : wf_s e -> toks_inside (se_rng e) (any_tokens funcs rec t skip e).
  Proof.
    intros Hw. unfold any_tokens. pose proof (any_simple_inside t skip e Hw) as Hs.
    destruct t; try exact Hs; destruct (se_node e) eqn:En; try exact Hs.
    - apply list_like_inside; exact Hw.
    - apply list_like_inside; exact Hw.
    - apply map_tokens_inside; exact Hw.
    - destruct e as [r vt n]. inversion Hw as [? ? ? Hn]; subst. cbn [se_node se_rng] in *. subst n.
      destruct elems as [|x xs]; [apply toks_inside_nil|]. destruct ts as [|t0 ts0]; [apply toks_inside_nil|].
      inversion Hn; subst. apply bind_all_inside, tuple_like_inside. assumption.
    - apply object_tokens_inside; exact Hw.
  Qed.

  Lemma one_of_inside cs e : wf_s e -> toks_inside (se_rng e) (one_of_tokens rec cs e).
  Proof.
    intros Hw. induction cs as [|c r IH]; cbn [one_of_tokens]; [apply toks_inside_nil|].
    pose proof (Hrec c e Hw) as Hc. destruct (rec c e) as [[[|v l]|]|]; try exact Hc. exact IH.
  Qed.

  Lemma type_decl_inside e : wf_s e -> toks_inside (se_rng e) (type_decl_tokens rec_type e).
  Proof.
    intros Hw. destruct e as [r vt n]. inversion Hw as [? ? ? Hn]; subst. unfold type_decl_tokens. cbn [se_node se_rng].
    destruct n as [root steps res|t0|lit parts|w|elems|items|rt p1 p2 l0 r0|rt p x|x|c a b|coll key val cond|k|name nrng args|];
      try apply toks_inside_nil.
    - destruct steps as [|s0 [|s1 ss]]; try apply toks_inside_nil.
      destruct (is_prim_type_name root); [apply own_token_inside|apply toks_inside_nil].
    - inversion Hn as [| | | | | | | | | | | |? ? ? ? Hnr HF|]; subst.
      assert (Hname : toks_inside r (ret [tok "type-complex" nrng])).
      { apply toks_inside_ret. apply Forall_cons; [exact Hnr|apply Forall_nil]. }
      destruct (is_elem_type_name name).
      { destruct args as [|a0 [|a1 as1]]; [exact Hname| |apply toks_inside_nil].
        inversion HF as [|? ? (Hi & Hwa) _]; subst.
        apply bind_all_inside. apply Forall_cons; [exact Hname|apply Forall_cons; [apply rec_type_in; assumption|apply Forall_nil]]. }
      destruct (String.eqb name "object").
      { destruct args as [|a0 [|a1 as1]]; [exact Hname| |exact Hname].
        inversion HF as [|? ? (Hi & Hwa) _]; subst. destruct a0 as [ra va na]. inversion Hwa as [? ? ? Hna]; subst. cbn [se_node se_rng] in *.
        destruct na; try apply toks_inside_nil. inversion Hna as [| | | | |? ? HFi| | | | | | | |]; subst.
        apply bind_all_inside. apply Forall_cons; [exact Hname|].
        clear Hwa Hna Hw Hn HF. induction HFi as [|i l Hitem _ IH]; [apply Forall_nil|].
        inversion Hitem as [? kr k v Hk Hv Hwv Hp]; subst. destruct k as [kn|pe|]; try apply Forall_nil.
        apply Forall_cons.
        - apply toks_inside_ret. apply Forall_cons; [eapply inside_trans; [exact Hk|exact Hi]|apply Forall_nil].
        - apply Forall_cons; [|exact IH]. apply rec_type_in; [eapply inside_trans; [exact Hv|exact Hi]|exact Hwv]. }
      destruct (String.eqb name "tuple"); [|apply toks_inside_nil].
      destruct args as [|a0 [|a1 as1]]; [exact Hname| |exact Hname].
      inversion HF as [|? ? (Hi & Hwa) _]; subst. destruct a0 as [ra va na]. inversion Hwa as [? ? ? Hna]; subst. cbn [se_node se_rng] in *.
      destruct na; try apply toks_inside_nil. inversion Hna as [| | | |? ? HFe| | | | | | | | |]; subst.
      apply bind_all_inside. apply Forall_cons; [exact Hname|].
      clear Hwa Hna Hw Hn HF. induction HFe as [|x l (Hxi & Hxw) _ IH]; cbn [map]; [apply Forall_nil|].
      apply Forall_cons; [|exact IH]. apply rec_type_in; [eapply inside_trans; [exact Hxi|exact Hi]|exact Hxw].
  Qed.

  Lemma literal_value_inside cv t e : wf_s e -> toks_inside (se_rng e) (literal_value_tokens vals rec cv t e).
  Proof.
    intros Hw. unfold literal_value_tokens.
    set (typ := if is_dyn t then match se_vt e with Some t' => t' | None => t end else t).
    destruct typ; try apply toks_inside_nil.
    - (* bool *) destruct (se_node e); try apply toks_inside_nil. destruct (value_of vals e); [|apply toks_inside_nil].
      destruct (sexp_eqb cv s); [apply own_token_inside|apply toks_inside_nil].
    - (* num *) destruct (se_node e); try apply toks_inside_nil. destruct (value_of vals e); [|apply toks_inside_nil].
      destruct (sexp_eqb cv s); [apply own_token_inside|apply toks_inside_nil].
    - (* str *) destruct (se_node e); try apply toks_inside_nil. destruct (value_of vals e); [|apply toks_inside_nil].
      destruct (sexp_eqb cv s && (lit || all_string_parts parts)); [apply own_token_inside|apply toks_inside_nil].
    - (* list *)
      destruct e as [r vt n]. inversion Hw as [? ? ? Hn]; subst. cbn [se_node se_rng].
      destruct n; try apply toks_inside_nil. inversion Hn as [| | | |? ? HF| | | | | | | | |]; subst.
      apply bind_all_inside. clear Hw Hn. generalize (val_elems cv).
      induction HF as [|x l (Hi & Hwx) _ IH]; intros vs; destruct vs as [|v vs']; try apply Forall_nil.
      apply Forall_cons; [|apply IH].
      destruct (value_of vals x); [|apply toks_inside_nil]. destruct (sexp_eqb v s); [apply rec_in; assumption|apply toks_inside_nil].
    - (* set *)
      destruct e as [r vt n]. inversion Hw as [? ? ? Hn]; subst. cbn [se_node se_rng].
      destruct n; try apply toks_inside_nil. inversion Hn as [| | | |? ? HF| | | | | | | | |]; subst.
      apply bind_all_inside. apply Forall_forall. intros y Hy. apply in_map_iff in Hy as (x & <- & Hx).
      apply In_firstn in Hx. rewrite Forall_forall in HF. destruct (HF x Hx) as (Hi & Hwx).
      destruct (value_of vals x); [|apply toks_inside_nil].
      destruct (ty_eqb typ (val_type s) && existsb (sexp_eqb s) (val_elems cv)); [apply rec_in; assumption|apply toks_inside_nil].
    - (* map *)
      destruct e as [r vt n]. inversion Hw as [? ? ? Hn]; subst. cbn [se_node se_rng].
      destruct n; try apply toks_inside_nil. inversion Hn as [| | | | |? ? HF| | | | | | | |]; subst.
      apply bind_all_inside. apply Forall_forall. intros y Hy. apply in_map_iff in Hy as (i & <- & Hin).
      rewrite Forall_forall in HF. specialize (HF i Hin). inversion HF as [? kr k v Hk Hv Hwv Hp]; subst.
      destruct k as [kn|pe|]; try apply toks_inside_nil.
      destruct (alookup kn (val_entries cv)) as [mv|]; [|apply toks_inside_nil].
      apply bind_all_inside. apply Forall_cons; [apply toks_inside_ret; apply Forall_cons; [exact Hk|apply Forall_nil]|].
      apply Forall_cons; [|apply Forall_nil].
      destruct (value_of vals v); [|apply toks_inside_nil]. destruct (sexp_eqb mv s); [apply rec_in; assumption|apply toks_inside_nil].
    - (* tuple *)
      destruct e as [r vt n]. inversion Hw as [? ? ? Hn]; subst. cbn [se_node se_rng].
      destruct n; try apply toks_inside_nil. destruct elems as [|x xs]; [apply toks_inside_nil|].
      destruct ts; [apply toks_inside_nil|]. inversion Hn; subst. apply bind_all_inside, tuple_like_inside. assumption.
    - apply object_tokens_inside; exact Hw.
  Qed.

  Lemma step_tokens_for_inside c e : wf_s e -> toks_inside (se_rng e) (step_tokens_for funcs vals rec rec_type c e).
  Proof.
    intros Hw. destruct c as [t s|t s|v t d|k n|s t n a| |el mn mx|el mn mx|es|el n i mn mx|ats nl n i|cs]; cbn [step_tokens_for].
    - apply any_tokens_inside; exact Hw.
    - apply literal_type_inside; exact Hw.
    - apply literal_value_inside; exact Hw.
    - destruct (se_node e); try apply toks_inside_nil. destruct steps as [|s0 [|s1 ss]]; try apply toks_inside_nil.
      destruct (String.eqb root k); [apply own_token_inside|apply toks_inside_nil].
    - apply toks_inside_ret, reference_tokens_inside; exact Hw.
    - apply type_decl_inside; exact Hw.
    - apply list_like_inside; exact Hw.
    - apply list_like_inside; exact Hw.
    - destruct e as [r vt nd]. inversion Hw as [? ? ? Hn]; subst. cbn [se_node se_rng].
      destruct nd; try apply toks_inside_nil. destruct elems as [|x xs]; [apply toks_inside_nil|].
      destruct es; [apply toks_inside_nil|]. inversion Hn; subst. apply bind_all_inside, tuple_like_inside. assumption.
    - apply map_tokens_inside; exact Hw.
    - apply object_tokens_inside; exact Hw.
    - apply one_of_inside; exact Hw.
  Qed.
End StepInside.

Theorem type_tokens_inside funcs fuel : forall e, wf_s e -> toks_inside (se_rng e) (type_tokens funcs fuel e).
Proof.
  induction fuel as [|n IH]; intros e Hw; [intros ts E; discriminate|].
  cbn [type_tokens]. apply type_decl_inside; [exact IH|exact Hw].
Qed.

(* every token of a value lies inside the value, for every constraint, at any depth *)
Theorem value_tokens_inside funcs vals fuel : forall c e, wf_s e -> toks_inside (se_rng e) (value_tokens funcs vals fuel c e).
Proof.
  induction fuel as [|n IH]; intros c e Hw; [intros ts E; discriminate|].
  cbn [value_tokens]. apply step_tokens_for_inside; [exact IH|apply type_tokens_inside|exact Hw].
Qed.

(* the whole file: every value token lies inside the value of some attribute of the file *)
Lemma bind_all_Forall (P : vtoken -> Prop) l ts :
  bind_all l = Some (Some ts) -> Forall (fun r => forall x, r = Some (Some x) -> Forall P x) l -> Forall P ts.
Proof.
  revert ts. induction l as [|x l' IH]; intros ts H HF; cbn [bind_all] in H.
  - injection H as <-. constructor.
  - inversion HF as [|? ? Hx Hl]; subst. destruct x as [[a|]|]; try discriminate.
    + destruct (bind_all l') as [[b|]|] eqn:E; try discriminate. injection H as <-.
      apply Forall_app. split; [apply Hx; reflexivity|apply IH; [reflexivity|exact Hl]].
    + destruct (bind_all l') as [[b|]|]; discriminate.
Qed.

Theorem file_value_tokens_inside_values funcs vals exprs :
  (forall r e, lookup_sexpr exprs r = Some e -> wf_s e) ->
  forall fuel bs b ts,
  body_value_tokens funcs vals exprs fuel bs b = Some (Some ts) ->
  Forall (fun t => exists r e, lookup_sexpr exprs r = Some e /\ inside (vk_rng t) (se_rng e)) ts.
Proof.
  intros Hwf. induction fuel as [|n IH]; intros bs b ts H; [discriminate|].
  cbn [body_value_tokens] in H. eapply bind_all_Forall; [exact H|].
  apply Forall_app. split.
  - apply Forall_forall. intros x Hx y ->. apply in_map_iff in Hx as (a & Ha & _).
    unfold attr_value_tokens in Ha. destruct (token_attr_schema bs (a_name a)) as [s|]; [|injection Ha as <-; constructor].
    destruct (lookup_sexpr exprs (a_rng a)) as [e|] eqn:El; [|discriminate].
    pose proof (value_tokens_inside funcs vals 40 (as_cons s) e (Hwf _ _ El) y Ha) as Hin.
    eapply Forall_impl; [|exact Hin]. intros t Ht. exists (a_rng a), e. split; [exact El|exact Ht].
  - apply Forall_forall. intros x Hx y ->. apply in_map_iff in Hx as (k & Hk & _).
    destruct (alookup (k_type k) (bs_blocks bs)) as [sc|]; [|injection Hk as <-; constructor].
    exact (IH _ _ _ Hk).
Qed.
