(* C11: go-to-definition and find-references are inverse views of one matching relation. *)
From Coq Require Import String List ZArith Bool Permutation Lia.
From HV Require Import Base.Pos Base.SortSpec Model.Addr Model.Schema Model.Ref.
Import ListNotations.
Open Scope list_scope.

Lemma target_ind' (P : target -> Prop) :
  (forall a la fr sc rg df ty nm nested, Forall P nested -> P (Target a la fr sc rg df ty nm nested)) ->
  forall t, P t.
Proof.
  intros H. fix IH 1. intros [a la fr sc rg df ty nm nested]. apply H.
  induction nested as [|u r IHr]; constructor; [apply IH|exact IHr].
Qed.

(* t lies somewhere in the forest ts *)
Inductive deep_mem : target -> list target -> Prop :=
| dm_here t ts : In t ts -> deep_mem t ts
| dm_nested t u ts : In u ts -> deep_mem t (t_nested u) -> deep_mem t ts.

Lemma deep_mem_incl t ts ts' : (forall u, In u ts -> In u ts') -> deep_mem t ts -> deep_mem t ts'.
Proof. intros Hi H. destruct H as [t ts H|t u ts Hu H]; [apply dm_here; auto|eapply dm_nested; eauto]. Qed.

Section Inverse.
  Variable conv : ty -> ty -> bool.

  Lemma deep_match_eq a cs r t :
    deep_match conv a cs r t =
    (if target_matches conv t a cs r then [t] else []) ++ flat_map (deep_match conv a cs r) (t_nested t).
  Proof.
    destruct t as [ad la fr sc rg df ty nm nested]. reflexivity.
  Qed.

  Lemma origins_match_eq os lp tp t :
    origins_match conv os lp tp t =
    filter (origin_matches conv lp tp t) os ++ flat_map (origins_match conv os lp tp) (t_nested t).
  Proof.
    destruct t as [ad la fr sc rg df ty nm nested]. reflexivity.
  Qed.

  (* Targets.Match reports exactly the targets of the forest that match *)
  Lemma deep_match_spec a cs r : forall u t,
    In t (deep_match conv a cs r u) <->
    (t = u \/ deep_mem t (t_nested u)) /\ target_matches conv t a cs r = true.
  Proof.
    induction u as [ad la fr sc rg df ty nm nested IH] using target_ind'. intros t.
    rewrite deep_match_eq. cbn [t_nested]. rewrite in_app_iff, in_flat_map. split.
    - intros [H|(v & Hv & H)].
      + destruct (target_matches conv _ a cs r) eqn:E; [|contradiction]. destruct H as [<-|[]]. auto.
      + rewrite Forall_forall in IH. apply (IH v Hv) in H. destruct H as [[->|H] Hm]; split; auto.
        * right. now apply dm_here.
        * right. eapply dm_nested; eauto.
    - intros [[->|H] Hm].
      + left. rewrite Hm. now left.
      + right. rewrite Forall_forall in IH. destruct H as [t ts H|t v ts Hv H].
        * exists t. split; [exact H|]. apply (IH t H). auto.
        * exists v. split; [exact Hv|]. apply (IH v Hv). auto.
  Qed.

  Lemma targets_match_spec ts a cs r t :
    In t (targets_match conv ts a cs r) <-> deep_mem t ts /\ target_matches conv t a cs r = true.
  Proof.
    unfold targets_match. rewrite in_flat_map. split.
    - intros (u & Hu & H). apply deep_match_spec in H. destruct H as [[->|H] Hm]; split; auto.
      + now apply dm_here.
      + eapply dm_nested; eauto.
    - intros [H Hm]. destruct H as [t ts H|t u ts Hu H].
      + exists t. split; [exact H|]. apply deep_match_spec. auto.
      + exists u. split; [exact Hu|]. apply deep_match_spec. auto.
  Qed.

  (* Origins.Match reports exactly the origins that match the target or one nested in it *)
  Lemma origins_match_spec os lp tp : forall t o,
    In o (origins_match conv os lp tp t) <->
    In o os /\ exists t', (t' = t \/ deep_mem t' (t_nested t)) /\ origin_matches conv lp tp t' o = true.
  Proof.
    induction t as [ad la fr sc rg df ty nm nested IH] using target_ind'. intros o.
    rewrite origins_match_eq. cbn [t_nested]. rewrite in_app_iff, filter_In, in_flat_map.
    rewrite Forall_forall in IH. split.
    - intros [[Ho Hm]|(v & Hv & H)].
      + split; [exact Ho|]. eexists. split; [left; reflexivity|exact Hm].
      + apply (IH v Hv) in H. destruct H as (Ho & t' & [E|Hd] & Hm); (split; [exact Ho|]); exists t'; split; auto.
        * right. subst t'. now apply dm_here.
        * right. eapply dm_nested; eauto.
    - intros (Ho & t' & [->|Hd] & Hm).
      + left. auto.
      + right. destruct Hd as [t' ts H|t' v ts Hv H].
        * exists t'. split; [exact H|]. apply (IH t' H). split; [exact Ho|]. exists t'. auto.
        * exists v. split; [exact Hv|]. apply (IH v Hv). split; [exact Ho|]. exists t'. auto.
  Qed.

  Lemma path_eqb_refl p : path_eqb p p = true.
  Proof. unfold path_eqb. now rewrite !String.eqb_refl. Qed.

  Lemma path_eqb_eq a b : path_eqb a b = true -> a = b.
  Proof.
    unfold path_eqb. intros H. apply andb_true_iff in H as [H1 H2].
    apply String.eqb_eq in H1. apply String.eqb_eq in H2. destruct a, b. cbn in *. now subst.
  Qed.

  Lemma find_path_spec w p c : find_path w p = Some c -> In c w /\ pc_ok c = true /\ pc_path c = p.
  Proof.
    induction w as [|d r IH]; [discriminate|]. cbn [find_path].
    destruct (path_eqb (pc_path d) p) eqn:E.
    - destruct (pc_ok d) eqn:Ok; [|discriminate]. intros H; inversion H; subst.
      split; [now left|]. split; [exact Ok|now apply path_eqb_eq].
    - intros H. destruct (IH H) as (Hi & Ho & Hp). split; [now right|auto].
  Qed.

  (* every target InnermostAtPos returns is a target of the forest *)
  Lemma innermost_deep file x : forall fuel ts t,
    In t (innermost_at_pos fuel ts file x) -> deep_mem t ts.
  Proof.
    induction fuel as [|f IH]; intros ts t; [contradiction|]. cbn [innermost_at_pos].
    set (step := fun (acc : list target) (u : target) =>
                   if rng_has (t_def u) file x then acc ++ [u]
                   else match innermost_at_pos f (t_nested u) file x with [] => acc ++ [u] | n :: ns => acc ++ n :: ns end).
    assert (G : forall l acc, (forall u, In u l -> In u ts) -> (forall u, In u acc -> deep_mem u ts) ->
                forall u, In u (fold_left step l acc) -> deep_mem u ts).
    { induction l as [|v r IHl]; intros acc Hl Hacc u; cbn [fold_left]; [apply Hacc|].
      apply IHl; [intros y Hy; apply Hl; now right|].
      intros y Hy. unfold step in Hy.
      assert (Hv : In v ts) by (apply Hl; now left).
      destruct (rng_has (t_def v) file x).
      - apply in_app_iff in Hy as [Hy|[<-|[]]]; [now apply Hacc|now apply dm_here].
      - destruct (innermost_at_pos f (t_nested v) file x) as [|n ns] eqn:E.
        + apply in_app_iff in Hy as [Hy|[<-|[]]]; [now apply Hacc|now apply dm_here].
        + apply in_app_iff in Hy as [Hy|Hy]; [now apply Hacc|].
          eapply dm_nested; [exact Hv|]. apply IH. rewrite E. exact Hy. }
    apply G; [|intros u []]. intros u Hu. apply filter_In in Hu. tauto.
  Qed.

  Variable w : list path_ctx.

  Lemma in_targeting p own file x pp r :
    find_path w p = Some own ->
    (In (pp, r) (origins_targeting_pos conv w p file x) <->
     exists t c o, In t (innermost_at_pos (S (forest_depth (pc_targets own))) (pc_targets own) file x) /\
                   In c w /\ pc_ok c = true /\ pc_path c = pp /\ o_range o = r /\
                   In o (origins_match conv (pc_origins c) (pc_path c) p t)).
  Proof.
    intros F. unfold origins_targeting_pos. rewrite F. split.
    - intros H. apply (Permutation_in _ (Permutation_sym (stable_sort_perm _ _))) in H.
      apply in_flat_map in H as (t & Ht & H). apply in_flat_map in H as (c & Hc & H).
      destruct (pc_ok c) eqn:Ok; [|contradiction]. apply in_map_iff in H as (o & E & Ho).
      inversion E; subst. exists t, c, o. auto 10.
    - intros (t & c & o & Ht & Hc & Ok & <- & <- & Ho).
      apply (Permutation_in _ (stable_sort_perm _ _)).
      apply in_flat_map. exists t. split; [exact Ht|]. apply in_flat_map. exists c. split; [exact Hc|].
      rewrite Ok. apply in_map_iff. exists o. auto.
  Qed.

  (* go-to-definition => find-references, for an origin in the same path *)
  Theorem gotodef_findrefs_local p own file x a r cs t :
    find_path w p = Some own ->
    In (OLocal a r cs) (pc_origins own) ->
    In t (targets_match conv (pc_targets own) a cs r) ->
    In t (innermost_at_pos (S (forest_depth (pc_targets own))) (pc_targets own) file x) ->
    In (pc_path own, r) (origins_targeting_pos conv w p file x).
  Proof.
    intros F Ho Ht Hi. destruct (find_path_spec _ _ _ F) as (Hw & Ok & Hp).
    apply (in_targeting p own file x _ _ F). exists t, own, (OLocal a r cs).
    repeat (split; [assumption || reflexivity|]).
    apply origins_match_spec. split; [exact Ho|]. exists t. split; [now left|].
    cbn [origin_matches]. rewrite Hp, path_eqb_refl. cbn [andb].
    apply targets_match_spec in Ht. tauto.
  Qed.

  (* ... and for an origin in another path that points into this one *)
  Theorem gotodef_findrefs_path c own file x a r tp cs t :
    In c w -> pc_ok c = true ->
    In (OPath r a tp cs) (pc_origins c) ->
    find_path w tp = Some own ->
    In t (targets_match conv (pc_targets own) a cs r) ->
    In t (innermost_at_pos (S (forest_depth (pc_targets own))) (pc_targets own) file x) ->
    In (pc_path c, r) (origins_targeting_pos conv w tp file x).
  Proof.
    intros Hc Ok Ho F Ht Hi.
    apply (in_targeting tp own file x _ _ F). exists t, c, (OPath r a tp cs).
    repeat (split; [assumption || reflexivity|]).
    apply origins_match_spec. split; [exact Ho|]. exists t. split; [now left|].
    cbn [origin_matches]. rewrite path_eqb_refl. cbn [andb].
    apply targets_match_spec in Ht. tauto.
  Qed.

  (* find-references => go-to-definition: every reported place holds an origin of that path whose
     resolution (in the path it points to, which is the queried one) contains the innermost
     declaration at the position or one nested in it *)
  Theorem findrefs_gotodef p own file x pp r :
    find_path w p = Some own ->
    In (pp, r) (origins_targeting_pos conv w p file x) ->
    exists c o t t',
      In c w /\ pc_ok c = true /\ pc_path c = pp /\ In o (pc_origins c) /\ o_range o = r /\
      In t (innermost_at_pos (S (forest_depth (pc_targets own))) (pc_targets own) file x) /\
      (t' = t \/ deep_mem t' (t_nested t)) /\
      match o with
      | OLocal a _ cs => pp = p /\ In t' (targets_match conv (pc_targets own) a cs r)
      | OPath _ a tp cs => tp = p /\ In t' (targets_match conv (pc_targets own) a cs r)
      | ODirect _ _ _ => False
      end.
  Proof.
    intros F H. apply (in_targeting p own file x _ _ F) in H.
    destruct H as (t & c & o & Ht & Hc & Ok & Hp & Hr & Ho).
    apply origins_match_spec in Ho as (Ho & t' & Hd & Hm).
    exists c, o, t, t'. repeat (split; [assumption|]).
    assert (Hdeep : deep_mem t' (pc_targets own)).
    { pose proof (innermost_deep _ _ _ _ _ Ht) as Hti. destruct Hd as [->|Hd]; [exact Hti|].
      clear - Hti Hd. induction Hti as [t ts Hin|t u ts Hu Hti IH].
      - eapply dm_nested; eauto.
      - eapply dm_nested; [exact Hu|]. apply IH. exact Hd. }
    destruct o as [a r0 cs|r0 a tp cs|r0 tp tr]; cbn [origin_matches o_range] in *.
    - apply andb_true_iff in Hm as [Hpe Hm]. apply path_eqb_eq in Hpe. subst r0.
      split; [congruence|]. apply targets_match_spec. auto.
    - apply andb_true_iff in Hm as [Hpe Hm]. apply path_eqb_eq in Hpe. subst r0.
      split; [exact Hpe|]. apply targets_match_spec. auto.
    - discriminate.
  Qed.
End Inverse.

(* ---------- non-vacuity: a world in which the premises hold and the conclusion is not trivial *)
Definition ex_pos (b : Z) : pos := {| p_line := 1; p_col := b + 1; p_byte := b |}.
Definition ex_rng (a b : Z) : range := {| r_file := "main.tf"; r_start := ex_pos a; r_end := ex_pos b |}.
Definition ex_target : target :=
  Target [SRoot "var"; SAttr "a"] [] None "variable" (Some (ex_rng 0 30)) (Some (ex_rng 0 12)) TStr "a"
         [Target [SRoot "var"; SAttr "a"; SAttr "x"] [] None "variable" (Some (ex_rng 15 25)) None TStr "x" []].
Definition ex_origin : origin := OLocal [SRoot "var"; SAttr "a"] (ex_rng 40 45) [].
Definition ex_path : path := {| pa_path := "root"; pa_lang := "hcl" |}.
Definition ex_ctx : path_ctx := {| pc_path := ex_path; pc_ok := true; pc_targets := [ex_target]; pc_origins := [ex_origin] |}.
Definition ex_conv (a b : ty) : bool := ty_eqb a b.

Example ex_premises :
  find_path [ex_ctx] ex_path = Some ex_ctx /\
  In ex_origin (pc_origins ex_ctx) /\
  targets_match ex_conv (pc_targets ex_ctx) [SRoot "var"; SAttr "a"] [] (ex_rng 40 45) = [ex_target] /\
  innermost_at_pos (S (forest_depth (pc_targets ex_ctx))) (pc_targets ex_ctx) "main.tf" (ex_pos 3) = [ex_target] /\
  origins_targeting_pos ex_conv [ex_ctx] ex_path "main.tf" (ex_pos 3) = [(ex_path, ex_rng 40 45)].
Proof. repeat split; try (vm_compute; reflexivity). now left. Qed.
