(* The clamp of the active parameter (Model/Signature.v), case by case. *)
From Coq Require Import ZArith Bool Lia.
From HV Require Import Model.Signature.

(* inside the fixed parameters the index is the argument's own *)
Lemma clamp_within plen act v : (act < plen)%Z -> clamp_active plen act v = Some act.
Proof.
  intro H. unfold clamp_active. destruct (Z.leb_spec plen act); [lia|]. reflexivity.
Qed.

(* beyond them it is the variadic parameter (the last one) ... *)
Lemma clamp_variadic plen act : (plen <= act)%Z -> clamp_active plen act true = Some (plen - 1)%Z.
Proof.
  intro H. unfold clamp_active. destruct (Z.leb_spec plen act); [|lia]. reflexivity.
Qed.

(* ... and without a variadic parameter there is no signature *)
Lemma clamp_surplus plen act : (plen <= act)%Z -> clamp_active plen act false = None.
Proof.
  intro H. unfold clamp_active. destruct (Z.leb_spec plen act); [|lia]. reflexivity.
Qed.
