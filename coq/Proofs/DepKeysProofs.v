From Coq Require Import String Ascii List ZArith Bool Lia Permutation Sorted.
From HV Require Import Base.Sexp Base.Str Base.SortSpec Model.Addr Model.DepKeys.
Import ListNotations.

(* ---- the lexicographic order on pairs of strings is a strict total order ---- *)
Lemma pair_ltb_spec a b :
  pair_ltb a b = true <-> slt (fst a) (fst b) \/ (fst a = fst b /\ slt (snd a) (snd b)).
Proof.
  unfold pair_ltb. rewrite orb_true_iff, andb_true_iff, !ltb_slt, String.eqb_eq. tauto.
Qed.

Lemma pair_asym a b : pair_ltb a b = true -> pair_ltb b a = false.
Proof.
  intros H. destruct (pair_ltb b a) eqn:E; [|reflexivity]. exfalso.
  apply pair_ltb_spec in H. apply pair_ltb_spec in E.
  destruct H as [H|[H1 H2]], E as [E|[E1 E2]].
  - exact (slt_irrefl _ (slt_trans _ _ _ H E)).
  - rewrite E1 in H. exact (slt_irrefl _ H).
  - rewrite H1 in E. exact (slt_irrefl _ E).
  - exact (slt_irrefl _ (slt_trans _ _ _ H2 E2)).
Qed.

Lemma pair_total a b : a = b \/ pair_ltb a b = true \/ pair_ltb b a = true.
Proof.
  destruct a as [a1 a2], b as [b1 b2]. rewrite !pair_ltb_spec; simpl.
  destruct (slt_total a1 b1) as [H|[H|H]]; auto.
  subst b1. destruct (slt_total a2 b2) as [H|[H|H]]; auto.
  subst b2. now left.
Qed.

Lemma pair_trans a b c : pair_ltb a b = true -> pair_ltb b c = true -> pair_ltb a c = true.
Proof.
  rewrite !pair_ltb_spec. intros [H|[H1 H2]] [E|[E1 E2]].
  - left. eapply slt_trans; eauto.
  - left. now rewrite <- E1.
  - left. now rewrite H1.
  - right. split; [congruence|eapply slt_trans; eauto].
Qed.

Lemma pair_le_trans a b c : le pair_ltb a b -> le pair_ltb b c -> le pair_ltb a c.
Proof.
  unfold le. intros H1 H2. destruct (pair_ltb c a) eqn:E; [|reflexivity]. exfalso.
  destruct (pair_total b a) as [->|[H|H]]; [congruence|congruence|].
  pose proof (pair_trans _ _ _ E H). congruence.
Qed.

(* ---- labels: the comparator factors through (decimal index, value) only up to order on Z;
        prove the order facts directly ---- *)
Lemma label_ltb_spec a b :
  label_ltb a b = true <-> (ld_index a < ld_index b)%Z \/ (ld_index a = ld_index b /\ slt (ld_value a) (ld_value b)).
Proof.
  unfold label_ltb. rewrite orb_true_iff, andb_true_iff, Z.ltb_lt, Z.eqb_eq, ltb_slt. tauto.
Qed.

Lemma label_asym a b : label_ltb a b = true -> label_ltb b a = false.
Proof.
  intros H. destruct (label_ltb b a) eqn:E; [|reflexivity]. exfalso.
  apply label_ltb_spec in H. apply label_ltb_spec in E.
  destruct H as [H|[H1 H2]], E as [E|[E1 E2]]; try lia.
  exact (slt_irrefl _ (slt_trans _ _ _ H2 E2)).
Qed.

Lemma label_total a b : a = b \/ label_ltb a b = true \/ label_ltb b a = true.
Proof.
  rewrite !label_ltb_spec. destruct a as [i v], b as [j w]; simpl.
  destruct (Z.lt_trichotomy i j) as [H|[H|H]]; auto.
  subst j. destruct (slt_total v w) as [H|[H|H]]; auto.
  subst w. now left.
Qed.

Lemma label_trans a b c : label_ltb a b = true -> label_ltb b c = true -> label_ltb a c = true.
Proof.
  rewrite !label_ltb_spec. intros [H|[H1 H2]] [E|[E1 E2]]; try (left; lia).
  right. split; [lia|eapply slt_trans; eauto].
Qed.

Lemma label_le_trans a b c : le label_ltb a b -> le label_ltb b c -> le label_ltb a c.
Proof.
  unfold le. intros H1 H2. destruct (label_ltb c a) eqn:E; [|reflexivity]. exfalso.
  destruct (label_total b a) as [->|[H|H]]; [congruence|congruence|].
  pose proof (label_trans _ _ _ E H). congruence.
Qed.

Lemma sorted_labels_perm ls ls' : Permutation ls ls' -> sorted_labels ls = sorted_labels ls'.
Proof.
  intros P. unfold sorted_labels.
  apply (stable_sort_perm_invariant label_ltb label_asym label_le_trans); [|exact P].
  intros a b _ _. apply label_total.
Qed.

(* attributes: what is rendered is a function of the sort key (name, rendered expression) *)
Definition render_attr (k : string * string) : string :=
  ("{""name"":" ++ json_string (fst k) ++ ",""expr"":" ++ snd k ++ "}")%string.

Lemma attr_json_render a : attr_json a = render_attr (attr_sort_key a).
Proof. reflexivity. Qed.

Lemma sorted_attrs_render_perm ats ats' : Permutation ats ats' ->
  map attr_json (sorted_attrs ats) = map attr_json (sorted_attrs ats').
Proof.
  intros P. unfold sorted_attrs.
  rewrite !(map_ext attr_json (fun a => render_attr (attr_sort_key a)) attr_json_render).
  rewrite <- !(map_map attr_sort_key render_attr).
  rewrite !(map_stable_sort attr_ltb pair_ltb attr_sort_key (fun a b => eq_refl)).
  f_equal.
  apply (stable_sort_perm_invariant pair_ltb pair_asym pair_le_trans).
  - intros a b _ _. apply pair_total.
  - now apply Permutation_map.
Qed.

Lemma perm_nil_iff {A} (l l' : list A) : Permutation l l' -> (l = [] <-> l' = []).
Proof.
  intros Hp; split; intros ->.
  - now apply Permutation_nil.
  - now apply Permutation_nil, Permutation_sym.
Qed.

(* C16: a schema key depends only on the multiset of key/value pairs, not on their order -
   for ALL lists of pairs, including repeated indices / names (after the fix commit). *)
Lemma schema_key_perm_invariant ls ls' ats ats' :
  Permutation ls ls' -> Permutation ats ats' -> schema_key ls ats = schema_key ls' ats'.
Proof.
  intros Pl Pa. unfold schema_key.
  rewrite (sorted_labels_perm ls ls' Pl), (sorted_attrs_render_perm ats ats' Pa).
  pose proof (perm_nil_iff _ _ Pl) as El. pose proof (perm_nil_iff _ _ Pa) as Ea.
  destruct ls, ls'; try (exfalso; (destruct El as [E1 E2]; (specialize (E1 eq_refl) || specialize (E2 eq_refl)); discriminate));
  destruct ats, ats'; try (exfalso; (destruct Ea as [E1 E2]; (specialize (E1 eq_refl) || specialize (E2 eq_refl)); discriminate));
  reflexivity.
Qed.

(* whatever sorting algorithm Go uses (stable or not), the rendered label list is the same:
   two label records that tie under the comparator are equal *)
Lemma labels_any_sort ls l1 l2 :
  is_sort label_ltb ls l1 -> is_sort label_ltb ls l2 -> l1 = l2.
Proof. apply (any_sort_unique label_ltb ls l1 l2). intros a b _ _. apply label_total. Qed.

(* the pre-fix comparator (index only) is refuted: a concrete pair of listings of one set *)
Definition label_ltb_prefix (a b : label_dep) : bool := Z.ltb (ld_index a) (ld_index b).
Definition schema_key_prefix (ls : list label_dep) : string :=
  ("{""labels"":[" ++ join "," (map label_json (stable_sort label_ltb_prefix ls)) ++ "]}")%string.
Lemma schema_key_prefix_refuted : exists ls ls', Permutation ls ls' /\ schema_key_prefix ls <> schema_key_prefix ls'.
Proof.
  exists [{| ld_index := 0; ld_value := "a" |}; {| ld_index := 0; ld_value := "b" |}],
         [{| ld_index := 0; ld_value := "b" |}; {| ld_index := 0; ld_value := "a" |}].
  split; [apply perm_swap|]. vm_compute. discriminate.
Qed.
