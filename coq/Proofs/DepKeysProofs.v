From Coq Require Import String Ascii List ZArith Bool Lia Permutation Sorted.
From HV Require Import Base.Sexp Base.Str Base.SortSpec Model.Addr Model.DepKeys.
Import ListNotations.

Lemma NoDup_map_inj {A B} (f : A -> B) (l : list A) :
  NoDup (map f l) -> forall a b, In a l -> In b l -> f a = f b -> a = b.
Proof.
  induction l as [|x r IH]; simpl; intros Hnd a b Ha Hb E; [contradiction|].
  inversion Hnd as [|? ? Hnin Hnd']; subst.
  destruct Ha as [<-|Ha], Hb as [<-|Hb]; auto.
  - exfalso. apply Hnin. rewrite E. now apply in_map.
  - exfalso. apply Hnin. rewrite <- E. now apply in_map.
Qed.

Lemma label_asym a b : label_ltb a b = true -> label_ltb b a = false.
Proof. unfold label_ltb. rewrite Z.ltb_lt, Z.ltb_ge. lia. Qed.

Lemma label_le_trans a b c : le label_ltb a b -> le label_ltb b c -> le label_ltb a c.
Proof. unfold le, label_ltb. rewrite !Z.ltb_ge. lia. Qed.

Lemma label_comparable ls : NoDup (map ld_index ls) ->
  forall a b, In a ls -> In b ls -> a = b \/ label_ltb a b = true \/ label_ltb b a = true.
Proof.
  intros Hnd a b Ha Hb. unfold label_ltb. rewrite !Z.ltb_lt.
  destruct (Z.eq_dec (ld_index a) (ld_index b)) as [E|E]; [left|lia].
  eapply NoDup_map_inj; eauto.
Qed.

Lemma attr_asym a b : attr_ltb a b = true -> attr_ltb b a = false.
Proof.
  unfold attr_ltb, String.ltb. rewrite (String.compare_antisym (ad_name b)).
  destruct (String.compare (ad_name a) (ad_name b)); simpl; congruence.
Qed.

Lemma attr_le_trans a b c : le attr_ltb a b -> le attr_ltb b c -> le attr_ltb a c.
Proof.
  unfold le, attr_ltb. intros H1 H2.
  destruct (String.ltb (ad_name c) (ad_name a)) eqn:E; [|reflexivity]. exfalso.
  apply ltb_slt in E.
  destruct (slt_total (ad_name b) (ad_name a)) as [H|[H|H]].
  - apply ltb_slt in H. congruence.
  - rewrite H in H2. apply ltb_slt in E. congruence.
  - pose proof (slt_trans _ _ _ E H) as H3. apply ltb_slt in H3. congruence.
Qed.

Lemma attr_comparable ats : NoDup (map ad_name ats) ->
  forall a b, In a ats -> In b ats -> a = b \/ attr_ltb a b = true \/ attr_ltb b a = true.
Proof.
  intros Hnd a b Ha Hb. unfold attr_ltb. rewrite !ltb_slt.
  destruct (slt_total (ad_name a) (ad_name b)) as [H|[H|H]]; auto.
  left. eapply NoDup_map_inj; eauto.
Qed.

Lemma perm_nil_iff {A} (l l' : list A) : Permutation l l' -> (l = [] <-> l' = []).
Proof.
  intros Hp; split; intros ->.
  - now apply Permutation_nil.
  - now apply Permutation_nil, Permutation_sym.
Qed.

(* C16: a schema key depends only on the set of key/value pairs, not on their order. *)
Lemma schema_key_perm_invariant ls ls' ats ats' :
  NoDup (map ld_index ls) -> NoDup (map ad_name ats) ->
  Permutation ls ls' -> Permutation ats ats' ->
  schema_key ls ats = schema_key ls' ats'.
Proof.
  intros Hl Ha Pl Pa. unfold schema_key, sorted_labels, sorted_attrs.
  rewrite (stable_sort_perm_invariant label_ltb label_asym label_le_trans ls ls' (label_comparable ls Hl) Pl).
  rewrite (stable_sort_perm_invariant attr_ltb attr_asym attr_le_trans ats ats' (attr_comparable ats Ha) Pa).
  pose proof (perm_nil_iff _ _ Pl) as El. pose proof (perm_nil_iff _ _ Pa) as Ea.
  destruct ls, ls'; try (exfalso; (destruct El as [E1 E2]; (specialize (E1 eq_refl) || specialize (E2 eq_refl)); discriminate));
  destruct ats, ats'; try (exfalso; (destruct Ea as [E1 E2]; (specialize (E1 eq_refl) || specialize (E2 eq_refl)); discriminate));
  reflexivity.
Qed.

(* and the same result whatever (stable or unstable) Go sort is used, as long as keys are distinct *)
Lemma labels_any_sort ls l1 l2 : NoDup (map ld_index ls) ->
  is_sort label_ltb ls l1 -> is_sort label_ltb ls l2 -> l1 = l2.
Proof. intros H. apply (any_sort_unique label_ltb ls l1 l2). now apply label_comparable. Qed.
