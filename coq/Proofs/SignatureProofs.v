From Coq Require Import String Ascii List ZArith Bool Lia.
From HV Require Import Base.Sexp Base.Str Base.Pos Model.Schema Model.Completion Model.Signature.
Import ListNotations.

Lemma arg_scan_bounds args : forall i p le li,
  (0 <= i)%Z -> (0 <= li)%Z ->
  let '(act, found, _, lidx) := arg_scan args i p le li in (0 <= act)%Z /\ (0 <= lidx)%Z.
Proof.
  induction args as [|a rest IH]; intros i p le li Hi Hl; cbn [arg_scan]; [lia|].
  destruct (Z.ltb (p_byte p) (p_byte (r_start a))); [lia|].
  destruct (contains_pos a p || Z.eqb (p_byte (r_end a)) (p_byte p)); [lia|].
  apply IH; lia.
Qed.

Lemma choose_active_nonneg found act lidx comma : (0 <= act)%Z -> (0 <= lidx)%Z -> (0 <= choose_active found act lidx comma)%Z.
Proof. unfold choose_active. destruct found, comma; lia. Qed.

Lemma clamp_active_valid plen act v a : (0 <= act)%Z -> (0 < plen)%Z -> clamp_active plen act v = Some a -> (0 <= a < plen)%Z.
Proof.
  unfold clamp_active. intros Ha Hp. destruct (Z.leb plen act) eqn:E; cbn [andb].
  - destruct (negb v); [discriminate|]. intros H; inversion H. lia.
  - apply Z.leb_gt in E. intros H; inversion H. lia.
Qed.

Definition sig_valid (f : fsig) (s : sig) : Prop :=
  sg_params s = (map (fun q => (pm_name q, pm_desc q)) (fs_params f)
                 ++ match fs_var f with Some v => [(pm_name v, pm_desc v)] | None => [] end)%list /\
  (sg_params s = [] \/ (0 <= sg_active s < Z.of_nat (length (sg_params s)))%Z).

(* what one call contributes: a signature whose parameter list is the function's fixed parameters
   followed by the variadic one, with an active parameter that is a valid index *)
Lemma call_effect_valid funcs file p c s :
  call_effect funcs file p c = Set_ s ->
  exists f, alookup (cl_name c) funcs = Some f /\ sig_valid f s /\ contains_pos (cl_rng c) p = true.
Proof.
  unfold call_effect. destruct (contains_pos (cl_rng c) p) eqn:Ec; cbn [negb]; [|discriminate].
  destruct (alookup (cl_name c) funcs) as [f|] eqn:Ef; [|discriminate].
  intros H. exists f. split; [reflexivity|]. split; [|reflexivity].
  assert (General :
    (if negb (contains_pos (range_between (cl_open c) (cl_close c)) p) then NoEffect else
     let '(act, found, last_end, last_idx) := arg_scan (cl_args c) 0 p (p_byte (r_start (cl_open c))) 0 in
     let comma := String.eqb (trim_right_blank (recover_left_comma (S (Z.to_nat (p_byte p))) file last_end (p_byte p) (p_byte p))) "," in
     let plen := (Z.of_nat (List.length (fs_params f)) + match fs_var f with Some _ => 1 | None => 0 end)%Z in
     match clamp_active plen (choose_active found act last_idx comma) (match fs_var f with None => false | Some _ => true end) with
     | None => Clear
     | Some a => Set_ {| sg_name := sig_name c f; sg_desc := fs_desc f;
                         sg_params := List.app (map (fun q => (pm_name q, pm_desc q)) (fs_params f))
                                               (match fs_var f with Some v => [(pm_name v, pm_desc v)] | None => [] end);
                         sg_active := a |}
     end) = Set_ s ->
    (0 < Z.of_nat (List.length (fs_params f)) + match fs_var f with Some _ => 1 | None => 0 end)%Z -> sig_valid f s).
  { clear H. destruct (negb _); [discriminate|].
    pose proof (arg_scan_bounds (cl_args c) 0 p (p_byte (r_start (cl_open c))) 0 (Z.le_refl 0) (Z.le_refl 0)) as Hb.
    destruct (arg_scan (cl_args c) 0 p (p_byte (r_start (cl_open c))) 0) as [[[act found] lend] lidx].
    destruct Hb as [Ha Hl]. cbv zeta.
    destruct (clamp_active _ _ _) as [a|] eqn:Ecl; [|discriminate].
    intros H Hp. inversion H; subst. unfold sig_valid; cbn [sg_params sg_active]. split; [reflexivity|right].
    apply clamp_active_valid in Ecl; [|now apply choose_active_nonneg|exact Hp].
    rewrite app_length, map_length. destruct (fs_var f); cbn [length] in *; lia. }
  destruct (fs_params f) as [|p0 ps] eqn:Ep; destruct (fs_var f) as [v|] eqn:Ev.
  - apply General; [exact H|cbn; lia].
  - inversion H; subst. unfold sig_valid; cbn. rewrite Ep, Ev. cbn. split; [reflexivity|now left].
  - apply General; [exact H|cbn [length]; lia].
  - apply General; [exact H|cbn [length]; lia].
Qed.

(* too many arguments and no variadic parameter: this call yields no signature *)
Lemma call_effect_never_overflows funcs file p c s f :
  call_effect funcs file p c = Set_ s -> alookup (cl_name c) funcs = Some f ->
  sg_params s = [] \/ (sg_active s < Z.of_nat (length (fs_params f)) + match fs_var f with Some _ => 1 | None => 0 end)%Z.
Proof.
  intros H Hf. destruct (call_effect_valid _ _ _ _ _ H) as (f' & Hf' & (Hp & Hv) & _).
  assert (f' = f) by congruence. subst f'.
  destruct Hv as [Hv|Hv]; [now left|right].
  rewrite Hp, app_length, map_length in Hv. destruct (fs_var f); cbn [length] in Hv; lia.
Qed.

Lemma fold_app funcs file p l1 l2 acc :
  fold_left (fun acc c => apply_effect acc (call_effect funcs file p c)) (l1 ++ l2) acc =
  fold_left (fun acc c => apply_effect acc (call_effect funcs file p c)) l2
            (fold_left (fun acc c => apply_effect acc (call_effect funcs file p c)) l1 acc).
Proof. apply fold_left_app. Qed.

Lemma fold_no_effect funcs file p l acc :
  Forall (fun c => call_effect funcs file p c = NoEffect) l ->
  fold_left (fun acc c => apply_effect acc (call_effect funcs file p c)) l acc = acc.
Proof. induction 1 as [|c r Hc _ IH]; cbn [fold_left]; [reflexivity|]. rewrite Hc. cbn [apply_effect]. exact IH. Qed.

(* the last visited call that has an effect decides - with pre-order visiting and properly nested
   call ranges that is the innermost known call whose parentheses contain the cursor *)
Theorem last_effective_call_decides funcs file p before c after :
  call_effect funcs file p c <> NoEffect ->
  Forall (fun c' => call_effect funcs file p c' = NoEffect) after ->
  signature_at_pos funcs file (before ++ c :: after) p =
  match call_effect funcs file p c with Set_ s => Some s | _ => None end.
Proof.
  intros Hc Ha. unfold signature_at_pos. rewrite fold_app. cbn [fold_left].
  rewrite (fold_no_effect _ _ _ _ _ Ha).
  destruct (call_effect funcs file p c); [contradiction|reflexivity|reflexivity].
Qed.

(* every returned signature comes from a known call that contains the cursor and is well formed *)
Theorem signature_valid funcs file calls p s :
  signature_at_pos funcs file calls p = Some s ->
  exists c f, In c calls /\ alookup (cl_name c) funcs = Some f /\ sig_valid f s /\ contains_pos (cl_rng c) p = true.
Proof.
  unfold signature_at_pos.
  assert (G : forall acc,
    (acc = None \/ exists s0 c f, acc = Some s0 /\ In c calls /\ alookup (cl_name c) funcs = Some f /\ sig_valid f s0 /\ contains_pos (cl_rng c) p = true) ->
    forall l, (forall c, In c l -> In c calls) ->
    fold_left (fun acc c => apply_effect acc (call_effect funcs file p c)) l acc = Some s ->
    exists c f, In c calls /\ alookup (cl_name c) funcs = Some f /\ sig_valid f s /\ contains_pos (cl_rng c) p = true).
  { intros acc Hacc l. revert acc Hacc. induction l as [|c r IH]; intros acc Hacc Hin; cbn [fold_left].
    - intros ->. destruct Hacc as [H|(s0 & c & f & H & Hc)]; [discriminate|]. inversion H; subst. exists c, f. exact Hc.
    - apply IH; [|intros x Hx; apply Hin; now right].
      destruct (call_effect funcs file p c) as [| |s1] eqn:E; cbn [apply_effect]; [exact Hacc|now left|].
      right. destruct (call_effect_valid _ _ _ _ _ E) as (f & Hf & Hv & Hc).
      exists s1, c, f. split; [reflexivity|]. split; [apply Hin; now left|]. split; [exact Hf|]. split; [exact Hv|exact Hc]. }
  apply (G None); auto.
Qed.
