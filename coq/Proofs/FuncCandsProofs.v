(* Function-name completion: what is offered, and that the order the table is visited in does
   not matter. *)
From Coq Require Import String List Bool Permutation.
From HV Require Import Base.Sexp Base.Str Base.SortSpec Model.Schema Model.Ref Model.FuncCands.
Import ListNotations.
Open Scope string_scope.

Section P.
  Variable conv : ty -> ty -> bool.

  Lemma in_matching funcs prefix expected c :
    In c (matching_functions conv funcs prefix expected) <->
    exists f, In f funcs /\ c = cand_of f /\ String.prefix prefix (fd_name f) = true /\ conv (fd_ret f) expected = true.
  Proof.
    unfold matching_functions. split.
    - intros H. eapply Permutation_in in H; [|apply Permutation_sym, stable_sort_perm].
      apply in_map_iff in H. destruct H as [f [Hc Hf]]. apply filter_In in Hf. destruct Hf as [Hin Hfit].
      unfold func_fits in Hfit. apply andb_true_iff in Hfit. destruct Hfit as [Hp Hcv].
      exists f. auto.
    - intros [f [Hin [Hc [Hp Hcv]]]]. eapply Permutation_in; [apply stable_sort_perm|].
      subst c. apply in_map. apply filter_In. split; [exact Hin|]. unfold func_fits. rewrite Hp, Hcv. reflexivity.
  Qed.

  (* every function candidate is a function of the table whose name starts with the typed text
     and whose return type converts to the expected type; its label is that name and accepting it
     writes a call of it *)
  Theorem function_candidates_sound funcs prefix expected c :
    In c (matching_functions conv funcs prefix expected) ->
    exists f, In f funcs /\ fc_label c = fd_name f /\ fc_newtext c = fd_name f ++ "()" /\
              String.prefix prefix (fd_name f) = true /\ conv (fd_ret f) expected = true.
  Proof.
    intros H. apply in_matching in H. destruct H as [f [Hin [Hc [Hp Hcv]]]]. subst c.
    exists f. cbn. auto.
  Qed.

  (* ... and every such function is offered *)
  Theorem function_candidates_complete funcs prefix expected f :
    In f funcs -> String.prefix prefix (fd_name f) = true -> conv (fd_ret f) expected = true ->
    In (cand_of f) (matching_functions conv funcs prefix expected).
  Proof. intros Hin Hp Hcv. apply in_matching. exists f. auto. Qed.

  Lemma string_trichotomy a b : a = b \/ String.ltb a b = true \/ String.ltb b a = true.
  Proof.
    unfold String.ltb. destruct (String.compare a b) eqn:E.
    - left. apply String.compare_eq_iff. exact E.
    - right. left. reflexivity.
    - right. right. rewrite String.compare_antisym, E. reflexivity.
  Qed.

  Lemma fcand_asym x y : fcand_ltb x y = true -> fcand_ltb y x = false.
  Proof.
    unfold fcand_ltb, String.ltb. rewrite (String.compare_antisym (fc_label y)).
    destruct (String.compare (fc_label x) (fc_label y)); simpl; congruence.
  Qed.

  Lemma fcand_le_trans x y z : le fcand_ltb x y -> le fcand_ltb y z -> le fcand_ltb x z.
  Proof.
    unfold le, fcand_ltb. intros H1 H2.
    destruct (String.ltb (fc_label z) (fc_label x)) eqn:E; [|reflexivity]. exfalso.
    apply ltb_slt in E.
    destruct (slt_total (fc_label y) (fc_label x)) as [H|[H|H]].
    - apply ltb_slt in H. congruence.
    - rewrite H in H2. apply ltb_slt in E. congruence.
    - pose proof (slt_trans _ _ _ E H) as H3. apply ltb_slt in H3. congruence.
  Qed.

  (* the table is a map (one entry per name): whatever order it is visited in, the same list
     of candidates comes out *)
  Theorem function_candidates_order_independent funcs funcs' prefix expected :
    NoDup (map fd_name funcs) -> Permutation funcs funcs' ->
    matching_functions conv funcs prefix expected = matching_functions conv funcs' prefix expected.
  Proof.
    intros Hnd Hp. unfold matching_functions. apply stable_sort_perm_invariant; [apply fcand_asym|apply fcand_le_trans| |].
    - intros a b Ha Hb. apply in_map_iff in Ha. destruct Ha as [fa [Ea Ha]]. apply in_map_iff in Hb. destruct Hb as [fb [Eb Hb]].
      subst a b. unfold fcand_ltb. cbn.
      destruct (string_trichotomy (fd_name fa) (fd_name fb)) as [E|[E|E]]; auto.
      left. apply filter_In in Ha. apply filter_In in Hb. destruct Ha as [Ha _]. destruct Hb as [Hb _].
      assert (fa = fb); [|subst; reflexivity].
      clear - Hnd Ha Hb E. induction funcs as [|x l IH]; [contradiction|].
      cbn in Hnd. inversion Hnd as [|? ? Hni Hnd']; subst.
      destruct Ha as [Ha|Ha], Hb as [Hb|Hb].
      + congruence.
      + subst x. exfalso. apply Hni. rewrite E. apply in_map. exact Hb.
      + subst x. exfalso. apply Hni. rewrite <- E. apply in_map. exact Ha.
      + apply IH; assumption.
    - apply Permutation_map. clear Hnd. induction Hp; cbn.
      + constructor.
      + destruct (func_fits conv prefix expected x); [constructor|]; assumption.
      + destruct (func_fits conv prefix expected x), (func_fits conv prefix expected y);
          try apply perm_swap; try apply Permutation_refl.
      + eapply perm_trans; eassumption.
  Qed.
End P.

Example function_candidates_nonvacuous :
  let conv := fun a b => ty_eqb a b in
  let funcs := [ {| fd_name := "lower"; fd_ret := TStr |}; {| fd_name := "length"; fd_ret := TNum |};
                 {| fd_name := "list_of"; fd_ret := TList TStr |}; {| fd_name := "join"; fd_ret := TStr |} ] in
  map fc_label (matching_functions conv funcs "l" TStr) = ["lower"] /\
  map fc_label (matching_functions conv (rev funcs) "" TStr) = ["join"; "lower"].
Proof. vm_compute. split; reflexivity. Qed.
