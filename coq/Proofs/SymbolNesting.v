(* C14: every child's range lies inside its parent's, wherever the parser's ranges nest. *)
From Coq Require Import String List ZArith Bool Lia Permutation.
From HV Require Import Base.Sexp Base.Pos Base.SortSpec Model.Addr Model.DepKeys Model.Schema Model.Ast Model.Merge Model.BodyQueries
                       Proofs.BodyQueriesProofs.
Import ListNotations.
Open Scope list_scope.

Definition inside (c p : range) : Prop :=
  (p_byte (r_start p) <= p_byte (r_start c))%Z /\ (p_byte (r_end c) <= p_byte (r_end p))%Z.

Lemma inside_trans a b c : inside a b -> inside b c -> inside a c.
Proof. unfold inside. lia. Qed.

(* the parser contract used here: sub-expressions lie inside their parent expression, an object
   item's key starts before its value *)
Fixpoint wf_expr (e : expr) : Prop :=
  match e with
  | ETuple r es =>
      (fix go (l : list expr) : Prop :=
         match l with [] => True | x :: t => inside (expr_range x) r /\ wf_expr x /\ go t end) es
  | EObject r its =>
      (fix go (l : list obj_item) : Prop :=
         match l with
         | [] => True
         | ObjItem kr _ v :: t =>
             inside kr r /\ inside (expr_range v) r /\ (p_byte (r_start kr) <= p_byte (r_start (expr_range v)))%Z /\
             wf_expr v /\ go t
         end) its
  | _ => True
  end.

(* ... an attribute's value lies inside the attribute, attributes and blocks inside the enclosing block *)
Fixpoint wf_body (outer : option range) (b : body) : Prop :=
  match b with
  | Body attrs blocks _ _ =>
      Forall (fun a => inside (expr_range (a_expr a)) (a_rng a) /\ wf_expr (a_expr a) /\
                       match outer with Some o => inside (a_rng a) o | None => True end) attrs /\
      (fix go (l : list block) : Prop :=
         match l with
         | [] => True
         | k :: t => match outer with Some o => inside (k_rng k) o | None => True end /\
                     wf_body (Some (k_rng k)) (k_body k) /\ go t
         end) blocks
  end.

Fixpoint all_inside (s : symbol) : Prop :=
  match s with
  | Symbol _ _ _ r nested =>
      (fix go (l : list symbol) : Prop :=
         match l with [] => True | c :: t => inside (sym_rng c) r /\ all_inside c /\ go t end) nested
  end.

Definition children_inside (r : range) (l : list symbol) : Prop :=
  Forall (fun c => inside (sym_rng c) r /\ all_inside c) l.

Lemma all_inside_eq k n e r nested : all_inside (Symbol k n e r nested) <-> children_inside r nested.
Proof.
  unfold children_inside. cbn [all_inside]. induction nested as [|c t IH]; [split; constructor|].
  rewrite Forall_cons_iff, <- IH. tauto.
Qed.

Lemma expr_symbols_inside : forall e, wf_expr e -> children_inside (expr_range e) (expr_symbols e).
Proof.
  fix IH 1. intros e. destruct e as [r a|r t|r s m|r es|r its|r k]; try (intros _; constructor).
  - (* tuple *) cbn [wf_expr expr_symbols expr_range]. generalize 0%nat.
    induction es as [|x t IHt]; intros i H; [constructor|]. destruct H as (Hin & Hw & Ht).
    constructor; [|apply IHt; exact Ht]. cbn [sym_rng]. split; [exact Hin|]. apply all_inside_eq. apply IH. exact Hw.
  - (* object *) cbn [wf_expr expr_symbols expr_range].
    induction its as [|[kr [key|] v] t IHt]; intros H; [constructor| |]; destruct H as (Hk & Hv & Hkv & Hw & Ht).
    + constructor; [|apply IHt; exact Ht]. cbn [sym_rng]. split.
      * unfold inside, range_between in *. cbn. lia.
      * apply all_inside_eq. specialize (IH v Hw). unfold children_inside in *.
        eapply Forall_impl; [|exact IH]. intros c [Hc Ha]. split; [|exact Ha].
        unfold inside, range_between in *. cbn. lia.
    + apply IHt. exact Ht.
Qed.

Lemma children_inside_perm r l l' : Permutation l l' -> children_inside r l -> children_inside r l'.
Proof. intros P H. unfold children_inside in *. eapply Permutation_Forall; eauto. Qed.

Theorem symbols_nest b0 : forall bs outer,
  wf_body outer b0 ->
  Forall (fun s => match outer with Some o => inside (sym_rng s) o | None => True end /\ all_inside s) (symbols_body bs b0).
Proof.
  apply (body_ind'
    (fun b => forall bs outer, wf_body outer b ->
       Forall (fun s => match outer with Some o => inside (sym_rng s) o | None => True end /\ all_inside s) (symbols_body bs b))
    (fun k => forall rec_bs, wf_body (Some (k_rng k)) (k_body k) -> children_inside (k_rng k) (symbols_body rec_bs (k_body k)))).
  - intros attrs blocks r e IH bs outer [Ha Hb].
    eapply Permutation_Forall; [apply symbols_one_to_one|]. unfold body_items. cbn [b_attrs b_blocks].
    apply Forall_app; split.
    + apply Forall_forall. intros s Hs. apply in_map_iff in Hs as (a & <- & Hin). rewrite Forall_forall in Ha.
      destruct (Ha a Hin) as (He & Hw & Ho). cbn [sym_rng]. split; [exact Ho|].
      apply all_inside_eq. pose proof (expr_symbols_inside _ Hw) as Hc. unfold children_inside in *.
      eapply Forall_impl; [|exact Hc]. intros c [Hc1 Hc2]. split; [eapply inside_trans; eauto|exact Hc2].
    + revert Hb. induction IH as [|k rest Hk _ IHr]; intros Hb; [constructor|]. destruct Hb as (Ho & Hw & Ht).
      cbn [blocks_symbols]. constructor; [|apply IHr; exact Ht].
      unfold block_symbol. cbn [sym_rng]. split; [exact Ho|]. apply all_inside_eq.
      destruct k as [t ls lrs tr o c rg d kb]. cbn [k_rng k_body] in *. apply Hk. exact Hw.
  - intros t ls lrs tr o c r d kb IH rec_bs Hw. cbn [k_rng k_body] in *. apply (IH rec_bs (Some r) Hw).
Qed.
