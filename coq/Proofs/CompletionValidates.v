(* Accepting a body-level candidate never makes validation report an unexpected item: every offered name is one the
   validating walk finds a schema for (Model/Completion.v against Model/Validate.v). *)
From Coq Require Import String List ZArith Bool Lia.
From HV Require Import Base.Sexp Base.Str Base.Pos Base.SortSpec Model.Addr Model.DepKeys Model.Schema Model.Ast Model.Merge
                       Model.Completion Model.Validate Proofs.CompletionProofs Proofs.CompletionNoDup.
Import ListNotations.

Lemma alookup_in {A} k (v : A) l : In (k, v) l -> exists v', alookup k l = Some v'.
Proof.
  induction l as [|[k' x] l IH]; intro H; [destruct H|]. cbn. destruct (String.eqb k k') eqn:E; [eexists; reflexivity|].
  destruct H as [H|H]; [injection H as -> _; rewrite String.eqb_refl in E; discriminate | apply IH; exact H].
Qed.

Lemma walker_schema_of_base bs name :
  (exists a, alookup name (bs_attrs bs) = Some a) \/ (exists a, bs_any bs = Some a) \/ is_ext_name bs name = true ->
  exists s, walker_attr_schema bs name = Some s.
Proof.
  unfold walker_attr_schema, is_ext_name. intros H.
  destruct (ext_has ext_for_each (bs_ext bs) && String.eqb name "for_each") eqn:Ef; [eexists; reflexivity|].
  destruct (ext_has ext_count (bs_ext bs) && String.eqb name "count") eqn:Ec; [eexists; reflexivity|].
  destruct H as [(a & ->)|[(a & Ha)|H]]; [eexists; reflexivity | | cbn in H; discriminate H].
  destruct (alookup name (bs_attrs bs)); [eexists; reflexivity | rewrite Ha; eexists; reflexivity].
Qed.

Section Body.
  Variable b : body.
  Variable bs : body_schema.
  Variable prefix : string.
  Variable edit : range.

  (* every offered attribute name is known to the validating walk ... *)
  Theorem offered_attribute_has_schema c :
    In c (allowed b bs prefix edit) -> c_kind c = CKAttr -> exists s, walker_attr_schema bs (c_label c) = Some s.
  Proof.
    unfold allowed. intros H Hk. apply walker_schema_of_base.
    apply in_app_or in H as [H|H]; [right; right; apply (in_ext_cands b bs prefix edit c H)|].
    apply in_app_or in H as [H|H].
    - apply in_map_iff in H as ([n a] & <- & Hp). apply filter_In in Hp as (Hin & _). left. cbn.
      eapply alookup_in. exact Hin.
    - apply in_app_or in H as [H|H].
      + unfold any_cands in H. destruct (bs_attrs bs); [|destruct H]. destruct (bs_any bs) as [a|]; [|destruct H].
        right; left. exists a. reflexivity.
      + apply in_map_iff in H as (q & <- & _). discriminate Hk.
  Qed.

  (* ... so no attribute written by accepting a candidate is reported as unexpected *)
  Corollary accepted_attribute_not_unexpected c unknown a :
    In c (allowed b bs prefix edit) -> c_kind c = CKAttr ->
    forall d, In d (attr_diags unknown (walker_attr_schema bs (c_label c)) a) -> d_kind d <> KUnexpectedAttr.
  Proof.
    intros H Hk d Hd. destruct (offered_attribute_has_schema c H Hk) as (s & Hs). rewrite Hs in Hd.
    unfold attr_diags in Hd. rewrite app_nil_r in Hd. destruct (af_deprecated (as_flags s)); [|destruct Hd].
    destruct Hd as [<-|[]]. discriminate.
  Qed.

  (* every offered block type is one the validating walk finds a block schema for, hence never "unexpected" *)
  Theorem offered_block_has_schema c :
    In c (allowed b bs prefix edit) -> c_kind c = CKBlock -> exists s, alookup (c_label c) (bs_blocks bs) = Some s.
  Proof.
    unfold allowed. intros H Hk.
    apply in_app_or in H as [H|H]; [apply (in_ext_cands b bs prefix edit) in H as (Hk' & _); rewrite Hk in Hk'; discriminate|].
    apply in_app_or in H as [H|H]; [apply in_map_iff in H as (q & <- & _); discriminate Hk|].
    apply in_app_or in H as [H|H].
    - unfold any_cands in H. destruct (bs_attrs bs); [|destruct H]. destruct (bs_any bs); [|destruct H].
      destruct (String.eqb prefix ""); [|destruct H]. destruct H as [<-|[]]. discriminate Hk.
    - apply in_map_iff in H as ([t s] & <- & Hp). apply filter_In in Hp as (Hin & _). cbn. eapply alookup_in. exact Hin.
  Qed.

  Corollary accepted_block_not_unexpected c unknown k :
    In c (allowed b bs prefix edit) -> c_kind c = CKBlock -> k_type k = c_label c ->
    forall d, In d (block_diags unknown (block_schema_for (Some bs) k) k) -> d_kind d <> KUnexpectedBlock.
  Proof.
    intros H Hk Ht d Hd. destruct (offered_block_has_schema c H Hk) as (s & Hs).
    unfold block_schema_for in Hd. rewrite Ht, Hs in Hd. unfold block_diags in Hd.
    apply in_app_or in Hd as [Hd|Hd].
    - revert Hd. generalize 0%nat. generalize (firstn (length (k_labels k)) (k_label_rngs k)).
      induction l as [|r l IH]; intros i Hd; cbn in Hd; [destruct Hd|].
      apply in_app_or in Hd as [Hd|Hd]; [|exact (IH _ Hd)].
      destruct (Nat.leb (length (bk_labels s)) i); [|destruct Hd]. destruct Hd as [<-|[]]. discriminate.
    - apply in_app_or in Hd as [Hd|Hd].
      + destruct (Nat.ltb _ _); [|destruct Hd]. destruct Hd as [<-|[]]. discriminate.
      + destruct (bk_deprecated s); [|destruct Hd]. destruct Hd as [<-|[]]. discriminate.
  Qed.
End Body.
