(* C02 for three more queries of the model: every range they emit is a range of the syntax tree, hence a good range
   whenever the parser's ranges are. *)
From Coq Require Import String List ZArith Bool.
From HV Require Import Base.Sexp Base.Pos Model.Addr Model.DepKeys Model.Schema Model.Ast Model.Merge Model.Completion Model.Hover
                       Model.BodyQueries Model.Links Proofs.TokenPlaces Proofs.HoverRanges Proofs.LinksProofs.
Import ListNotations.

Section G.
  Variable fname : string.
  Variable lc : Z -> option (Z * Z).

  (* body-level hover *)
  Theorem hover_range_good p b bs c r :
    Forall (good_range fname lc) (hover_item_ranges b) ->
    hover_body p b bs = HHover c r -> good_range fname lc r.
  Proof.
    intros Hg H. apply hover_range_is_an_item in H as (Hin & _). rewrite Forall_forall in Hg. exact (Hg r Hin).
  Qed.

  (* body-level semantic tokens *)
  Theorem token_ranges_good b bs mods :
    Forall (good_range fname lc) (places b) ->
    Forall (fun t => good_range fname lc (st_rng t)) (tokens_body bs mods b).
  Proof.
    intros Hg. rewrite Forall_forall in *. intros t Ht. apply Hg.
    eapply sublist_in; [apply tokens_subsequence_of_places|]. apply in_map. exact Ht.
  Qed.
End G.
