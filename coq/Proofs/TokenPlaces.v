(* C13: the body-level tokens are a subsequence of the names, block types and labels written in
   the file - each written element yields at most one token, nothing else yields one - hence they
   are pairwise disjoint wherever the parser's ranges for distinct elements are. *)
From Coq Require Import String List ZArith Bool Lia.
From HV Require Import Base.Sexp Base.Pos Model.Addr Model.DepKeys Model.Schema Model.Ast Model.Merge Model.BodyQueries.
Import ListNotations.
Open Scope list_scope.

Inductive sublist {A} : list A -> list A -> Prop :=
| sl_nil : sublist [] []
| sl_skip x l1 l2 : sublist l1 l2 -> sublist l1 (x :: l2)
| sl_keep x l1 l2 : sublist l1 l2 -> sublist (x :: l1) (x :: l2).

Lemma sublist_nil_l {A} (l : list A) : sublist [] l.
Proof. induction l; [constructor|apply sl_skip; auto]. Qed.

Lemma sublist_refl {A} (l : list A) : sublist l l.
Proof. induction l; [constructor|apply sl_keep; auto]. Qed.

Lemma sublist_app {A} (a b c d : list A) : sublist a b -> sublist c d -> sublist (a ++ c) (b ++ d).
Proof. induction 1; intros Hc; cbn; [exact Hc|apply sl_skip; auto|apply sl_keep; auto]. Qed.

Lemma sublist_in {A} (a b : list A) x : sublist a b -> In x a -> In x b.
Proof. induction 1; intros Hc; cbn in *; intuition. Qed.

Lemma sublist_nodup {A} (a b : list A) : sublist a b -> NoDup b -> NoDup a.
Proof.
  induction 1; intros Hn; [constructor| |]; inversion Hn; subst; auto.
  constructor; auto. intros Hin. apply H2. eapply sublist_in; eauto.
Qed.

(* pairwise: every element is related to every later one *)
Lemma sublist_pairwise {A} (R : A -> A -> Prop) (a b : list A) :
  sublist a b -> ForallOrdPairs R b -> ForallOrdPairs R a.
Proof.
  induction 1; intros Hp; [constructor| |]; inversion Hp; subst; auto.
  constructor; auto. rewrite Forall_forall in *. intros y Hy. apply H2. eapply sublist_in; eauto.
Qed.

(* the places a token can sit on, in the order the walk visits them *)
Fixpoint places (b : body) : list range :=
  match b with
  | Body attrs blocks _ _ =>
      map a_name_rng attrs ++
      (fix go (l : list block) : list range :=
         match l with
         | [] => []
         | k :: r => (k_type_rng k :: k_label_rngs k ++ places (k_body k)) ++ go r
         end) blocks
  end.

Definition block_places (k : block) : list range := k_type_rng k :: k_label_rngs k ++ places (k_body k).

Lemma places_eq attrs blocks r e :
  places (Body attrs blocks r e) = map a_name_rng attrs ++ flat_map block_places blocks.
Proof.
  reflexivity.
Qed.

Lemma label_tokens_sub mods ls rs : sublist (map st_rng (label_tokens mods ls rs)) rs.
Proof.
  revert rs. induction ls as [|l ls IH]; intros [|r rs]; cbn [label_tokens map]; try apply sublist_nil_l.
  cbn. apply sl_keep. apply IH.
Qed.

Theorem tokens_subsequence_of_places b0 : forall bs mods,
  sublist (map st_rng (tokens_body bs mods b0)) (places b0).
Proof.
  apply (body_ind'
    (fun b => forall bs mods, sublist (map st_rng (tokens_body bs mods b)) (places b))
    (fun k => forall bs mods, sublist (map st_rng (block_tokens tokens_body bs mods k)) (block_places k))).
  - intros attrs blocks r e IH bs mods. rewrite places_eq. cbn [tokens_body]. rewrite map_app. apply sublist_app.
    + induction attrs as [|a rest IHa]; [constructor|]. cbn [flat_map map].
      destruct (token_attr_schema bs (a_name a)); cbn [app map]; [apply sl_keep|apply sl_skip]; exact IHa.
    + induction IH as [|k rest Hk _ IHr]; [constructor|]. cbn [blocks_tokens flat_map]. rewrite map_app.
      apply sublist_app; [apply Hk|apply IHr].
  - intros t ls lrs tr o c r d kb IH bs mods. unfold block_tokens, block_places. cbn [k_type k_type_rng k_label_rngs k_body].
    destruct (alookup t (bs_blocks bs)) as [sc|]; [|apply sublist_nil_l].
    cbn [map st_rng]. apply sl_keep. rewrite map_app. apply sublist_app; [apply label_tokens_sub|].
    destruct (merge_block_body_schemas sc _) as [m res]. apply IH.
Qed.

Definition disjoint (a b : range) : Prop :=
  (p_byte (r_end a) <= p_byte (r_start b))%Z \/ (p_byte (r_end b) <= p_byte (r_start a))%Z.

(* where the parser keeps the names, types and labels of a file apart, the tokens are pairwise disjoint *)
Corollary tokens_pairwise_disjoint b bs mods :
  ForallOrdPairs disjoint (places b) -> ForallOrdPairs disjoint (map st_rng (tokens_body bs mods b)).
Proof. apply sublist_pairwise. apply tokens_subsequence_of_places. Qed.
