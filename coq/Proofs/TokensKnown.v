(* Semantic tokens mark the schema-known elements (Model/BodyQueries.v): every known attribute and block gets its
   token, an unknown block gets none - nor does anything written inside it. *)
From Coq Require Import String List ZArith Bool.
From HV Require Import Base.Sexp Base.Pos Base.SortSpec Model.Addr Model.DepKeys Model.Schema Model.Ast Model.Merge Model.BodyQueries.
Import ListNotations.

Theorem known_attribute_gets_a_token bs mods b a s :
  In a (b_attrs b) -> token_attr_schema bs (a_name a) = Some s ->
  In {| st_type := TokAttrName; st_mods := List.app mods (as_mods s); st_rng := a_name_rng a |} (tokens_body bs mods b).
Proof.
  destruct b as [attrs blocks r e]. cbn [b_attrs tokens_body]. intros Hin Hs. apply in_or_app. left.
  apply in_flat_map. exists a. split; [exact Hin|]. rewrite Hs. left. reflexivity.
Qed.

Theorem unknown_attribute_gets_no_token bs mods attrs r e :
  Forall (fun a => token_attr_schema bs (a_name a) = None) attrs ->
  tokens_body bs mods (Body attrs [] r e) = [].
Proof.
  intro H. cbn [tokens_body blocks_tokens]. rewrite app_nil_r.
  induction H as [|a l Ha _ IH]; cbn [flat_map]; [reflexivity|]. rewrite Ha. exact IH.
Qed.

Theorem unknown_block_gets_no_token rec bs mods k :
  alookup (k_type k) (bs_blocks bs) = None -> block_tokens rec bs mods k = [].
Proof. unfold block_tokens. intros ->. reflexivity. Qed.

Lemma in_blocks_tokens rec bs mods k l t : In k l -> In t (block_tokens rec bs mods k) -> In t (blocks_tokens rec bs mods l).
Proof.
  induction l as [|x l IH]; intros Hin Ht; [destruct Hin|]. cbn [blocks_tokens]. apply in_or_app.
  destruct Hin as [<-|Hin]; [left; exact Ht | right; apply IH; assumption].
Qed.

Theorem known_block_gets_its_type_token bs mods b k sc :
  In k (b_blocks b) -> alookup (k_type k) (bs_blocks bs) = Some sc ->
  In {| st_type := TokBlockType; st_mods := List.app mods (bk_mods sc); st_rng := k_type_rng k |} (tokens_body bs mods b).
Proof.
  destruct b as [attrs blocks r e]. cbn [b_blocks tokens_body]. intros Hin Hs. apply in_or_app. right.
  eapply in_blocks_tokens; [exact Hin|]. unfold block_tokens. rewrite Hs. left. reflexivity.
Qed.
