(* Workspace symbol queries (Model/BodyQueries.v workspace_symbols): exactly the matching top-level symbols. *)
From Coq Require Import String List Bool.
From HV Require Import Base.Sexp Base.Str Base.Pos Model.Schema Model.Ast Model.BodyQueries.
Import ListNotations.

(* a symbol is returned iff it is a top-level symbol of a file of a readable path and the query is empty or contained in
   its name *)
Theorem workspace_symbols_exact q paths s :
  In s (workspace_symbols q paths) <->
  exists fs f, In (true, fs) paths /\ In f fs /\ In s (snd f) /\ (String.eqb q "" || contains_str q (sym_name s)) = true.
Proof.
  unfold workspace_symbols. split.
  - intro H. apply in_flat_map in H as ([rd fs] & Hp & H). cbn [fst snd] in H. destruct rd; [|destruct H].
    apply in_flat_map in H as (f & Hf & H). apply filter_In in H as (Hs & Hq). exists fs, f. repeat split; assumption.
  - intros (fs & f & Hp & Hf & Hs & Hq). apply in_flat_map. exists (true, fs). split; [exact Hp|]. cbn [fst snd].
    apply in_flat_map. exists f. split; [exact Hf|]. apply filter_In. split; assumption.
Qed.

(* nothing of an unreadable path is ever returned *)
Corollary unreadable_path_contributes_nothing q fs :
  workspace_symbols q [(false, fs)] = [].
Proof. reflexivity. Qed.
