(* Facts about the model of EmptyHoverData (Model/HoverData.v). *)
From Coq Require Import String Ascii List ZArith Bool Lia.
From HV Require Import Base.Sexp Base.Str Model.Addr Model.DepKeys Model.Schema Model.Merge Model.Snippet.
From HV Require Import Model.HoverData.
Import ListNotations.
Open Scope string_scope.

(* what one line of an object listing says about one declared attribute *)
Definition line_describes (rec : constraint -> nat -> option (option string)) (lvl : nat)
           (na : string * attr_schema) (line : string) : Prop :=
  exists s, rec (as_cons (snd na)) (S lvl) = Some (Some s) /\ line = attr_line lvl (fst na) s (as_flags (snd na)).

Lemma object_hd_spec rec lvl : forall l ls,
  object_hd rec lvl l = Some (Some ls) -> Forall2 (line_describes rec lvl) l ls.
Proof.
  induction l as [|[name a] r IH]; intros ls H; cbn [object_hd] in H.
  - injection H as <-. constructor.
  - destruct (rec (as_cons a) (S lvl)) as [[s|]|] eqn:Er; try discriminate.
    destruct (object_hd rec lvl r) as [[ls'|]|] eqn:Eo; try discriminate.
    injection H as <-. constructor.
    + exists s. split; [exact Er | reflexivity].
    + apply IH. reflexivity.
Qed.

Lemma object_hd_length rec lvl l ls : object_hd rec lvl l = Some (Some ls) -> length ls = length l.
Proof. intro H. apply object_hd_spec in H. induction H as [|x y l l' _ _ IH]; cbn; [reflexivity | rewrite IH; reflexivity]. Qed.

(* an Object with declared attributes: the content is the (fenced, at level 0) braces around exactly one line per
   declared attribute, in the order of the names, each naming the attribute, the description of its own
   constraint one level deeper, and exactly the flags (optional, sensitive) the schema gives it *)
Theorem ehd_object_listing f ats an nm ip lvl s :
  ats <> [] ->
  ehd (S f) (CObject ats an nm ip) lvl = Some (Some s) ->
  exists ls, s = object_text lvl ls /\ Forall2 (line_describes (ehd f) lvl) ats ls.
Proof.
  intros Hne H. cbn [ehd] in H.
  destruct ats as [|x r]; [contradiction|].
  destruct (object_hd (ehd f) lvl (x :: r)) as [[ls|]|] eqn:Eo; try discriminate.
  injection H as <-. exists ls. split; [reflexivity|]. apply object_hd_spec. exact Eo.
Qed.

(* the flags shown are a function of the two schema flags alone *)
Lemma flag_comment_cases fl :
  flag_comment fl =
  match af_optional fl, af_sensitive fl with
  | true, true => " # optional, sensitive"
  | true, false => " # optional"
  | false, true => " # sensitive"
  | false, false => ""
  end.
Proof. unfold flag_comment, flag_names. destruct (af_optional fl), (af_sensitive fl); reflexivity. Qed.

(* an object without declared attributes: nothing at the top level, "{}" when nested *)
Lemma ehd_object_empty f an nm ip lvl :
  ehd (S f) (CObject [] an nm ip) lvl = match lvl with O => Some None | _ => Some (Some "{}") end.
Proof. reflexivity. Qed.

(* constraint kinds without hover data *)
Lemma ehd_not_described f c lvl :
  match c with CAny _ _ | CRef _ _ _ _ | CKeyword _ _ | CTypeDecl | COneOf _ => True | _ => False end ->
  ehd (S f) c lvl = Some None.
Proof. destruct c; intro H; try contradiction; reflexivity. Qed.

Definition not_lit_value (c : constraint) : Prop := match c with CLitValue _ _ _ => False | _ => True end.

Lemma expand_not_lit_value t c : expand_lit_type t = Some c -> not_lit_value c.
Proof. destruct t; cbn; intro H; try discriminate; injection H as <-; exact I. Qed.

Lemma wrap1_nonempty name r s : name <> "" -> wrap1 name r = Some (Some s) -> s <> "".
Proof.
  intros Hn H. destruct r as [[x|]|]; cbn in H; try discriminate. injection H as <-.
  destruct name; [contradiction | cbn; discriminate].
Qed.

Lemma object_text_nonempty lvl ls : object_text lvl ls <> "".
Proof. unfold object_text, open_fence. destruct lvl; cbn; discriminate. Qed.

(* content, when there is any, is never the empty string (for every constraint that is not itself a fixed value:
   a fixed number is rendered by the text the harness hands over, which the model does not inspect) *)
Theorem ehd_content_nonempty : forall f c lvl s,
  not_lit_value c -> ehd f c lvl = Some (Some s) -> s <> "".
Proof.
  induction f as [|f IH]; intros c lvl s Hc H; [discriminate|].
  destruct c; cbn [ehd] in H; try discriminate; try contradiction.
  - (* CLitType *)
    destruct (prim_type_name t) as [n|] eqn:Ep.
    + injection H as <-. destruct t; cbn in Ep; try discriminate; injection Ep as <-; discriminate.
    + destruct (expand_lit_type t) as [c'|] eqn:Ee; [|discriminate].
      eapply IH; [eapply expand_not_lit_value; exact Ee | exact H].
  - destruct e as [ec|]; [|discriminate]. eapply wrap1_nonempty; [|exact H]. discriminate.
  - destruct e as [ec|]; [|discriminate]. eapply wrap1_nonempty; [|exact H]. discriminate.
  - destruct (tuple_hd (ehd f) lvl es []) as [[l|]|]; try discriminate. injection H as <-. cbn. discriminate.
  - destruct e as [ec|]; [|discriminate]. eapply wrap1_nonempty; [|exact H]. discriminate.
  - destruct ats as [|x r].
    + destruct lvl; [discriminate|]. injection H as <-. discriminate.
    + destruct (object_hd (ehd f) lvl (x :: r)) as [[ls|]|]; try discriminate.
      injection H as <-. apply object_text_nonempty.
Qed.

(* non-vacuity: an object with one attribute of each flag combination *)
Definition fl (o s : bool) : attr_flags :=
  {| af_required := negb o; af_optional := o; af_computed := false; af_deprecated := false;
     af_sensitive := s; af_writeonly := false; af_depkey := false |}.
Definition at_ (o s : bool) (c : constraint) : attr_schema := AttrSchema (fl o s) None "" c [] 0 nil_sexp nil_sexp.

Example ehd_object_example :
  ehd 5 (CObject [("a", at_ true true (CLitType TStr false)); ("b", at_ true false (CList (Some (CLitType TNum false)) 0 0));
                  ("c", at_ false true (CLitType TBool false)); ("d", at_ false false (CObject [] false "" false))] false "" false) 0
  = Some (Some (fence ++ nl ++ "{" ++ nl ++ "  a = string # optional, sensitive" ++ nl ++ "  b = list(number) # optional" ++ nl
                ++ "  c = bool # sensitive" ++ nl ++ "  d = {}" ++ nl ++ "}" ++ nl ++ fence ++ nl)).
Proof. vm_compute. reflexivity. Qed.

(* ---- collections: the description of a list / set / map is the wrapper around the description of its element ---- *)
Lemma wrap1_spec name r s : wrap1 name r = Some (Some s) -> exists s', r = Some (Some s') /\ s = name ++ "(" ++ s' ++ ")".
Proof.
  destruct r as [[x|]|]; cbn; intro H; try discriminate. injection H as <-. exists x. split; reflexivity.
Qed.

Theorem ehd_collection_wraps_element f c lvl s :
  ehd (S f) c lvl = Some (Some s) ->
  match c with
  | CList (Some e) _ _ => exists s', ehd f e lvl = Some (Some s') /\ s = "list(" ++ s' ++ ")"
  | CSet (Some e) _ _ => exists s', ehd f e lvl = Some (Some s') /\ s = "set(" ++ s' ++ ")"
  | CMap (Some e) _ _ _ _ => exists s', ehd f e lvl = Some (Some s') /\ s = "map(" ++ s' ++ ")"
  | CList None _ _ | CSet None _ _ | CMap None _ _ _ _ => False
  | _ => True
  end.
Proof.
  destruct c; try exact (fun _ => I); cbn [ehd]; destruct e as [ec|]; intro H; try discriminate;
    apply wrap1_spec in H; exact H.
Qed.

(* a tuple lists the descriptions of all its elements, in order, at the same level *)
Lemma tuple_hd_spec rec lvl : forall l acc r,
  tuple_hd rec lvl l acc = Some (Some r) ->
  exists ds, r = List.app (rev acc) ds /\ Forall2 (fun e d => rec e lvl = Some (Some d)) l ds.
Proof.
  induction l as [|e l IH]; intros acc r H; cbn [tuple_hd] in H.
  - injection H as <-. exists []. split; [rewrite app_nil_r; reflexivity | constructor].
  - destruct (rec e lvl) as [[d|]|] eqn:Er; try discriminate.
    apply IH in H as (ds & -> & Hf). exists (d :: ds). split.
    + cbn [rev]. rewrite <- app_assoc. reflexivity.
    + constructor; assumption.
Qed.

Theorem ehd_tuple_lists_elements f es lvl s :
  ehd (S f) (CTuple es) lvl = Some (Some s) ->
  exists ds, s = "tuple([" ++ join ", " ds ++ "])" /\ Forall2 (fun e d => ehd f e lvl = Some (Some d)) es ds.
Proof.
  cbn [ehd]. destruct (tuple_hd (ehd f) lvl es []) as [[l|]|] eqn:Et; intro H; try discriminate.
  injection H as <-. apply tuple_hd_spec in Et as (ds & -> & Hf). exists ds. split; [reflexivity | exact Hf].
Qed.
