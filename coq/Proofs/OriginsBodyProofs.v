(* C10 at the level of CollectReferenceOrigins. *)
From Coq Require Import String List ZArith Bool Permutation Sorted Lia.
From HV Require Import Base.Sexp Base.Str Base.Pos Base.SortSpec Model.Addr Model.DepKeys Model.Schema Model.Ast Model.Merge
                       Model.Ref Model.Collect Model.Origins Model.OriginsBody Proofs.CollectProofs Proofs.OriginsProofs.
Import ListNotations.
Open Scope list_scope.

(* the comparator of the final ordering is a strict weak order on (file, start byte) *)
Lemma origin_ltb_spec x y :
  origin_ltb x y = true <->
  Str.slt (r_file (o_range x)) (r_file (o_range y)) \/
  (r_file (o_range x) = r_file (o_range y) /\ (p_byte (r_start (o_range x)) < p_byte (r_start (o_range y)))%Z).
Proof.
  unfold origin_ltb. destruct (String.eqb (r_file (o_range x)) (r_file (o_range y))) eqn:E; cbn [negb].
  - apply String.eqb_eq in E. rewrite Z.ltb_lt. split; [intros H; right; auto|].
    intros [H|[_ H]]; [|exact H]. rewrite E in H. now apply Str.slt_irrefl in H.
  - apply String.eqb_neq in E. rewrite Str.ltb_slt. split; [auto|]. intros [H|[H _]]; [exact H|contradiction].
Qed.

Lemma origin_le_trans a b c : le origin_ltb a b -> le origin_ltb b c -> le origin_ltb a c.
Proof.
  unfold le. intros H1 H2. destruct (origin_ltb c a) eqn:E; [|reflexivity]. exfalso.
  apply origin_ltb_spec in E.
  assert (N1 : ~ (Str.slt (r_file (o_range b)) (r_file (o_range a)) \/
                 (r_file (o_range b) = r_file (o_range a) /\ (p_byte (r_start (o_range b)) < p_byte (r_start (o_range a)))%Z))).
  { intros X. apply origin_ltb_spec in X. congruence. }
  assert (N2 : ~ (Str.slt (r_file (o_range c)) (r_file (o_range b)) \/
                 (r_file (o_range c) = r_file (o_range b) /\ (p_byte (r_start (o_range c)) < p_byte (r_start (o_range b)))%Z))).
  { intros X. apply origin_ltb_spec in X. congruence. }
  destruct (Str.slt_total (r_file (o_range a)) (r_file (o_range b))) as [Hab|[Hab|Hab]]; [| |tauto];
  destruct (Str.slt_total (r_file (o_range b)) (r_file (o_range c))) as [Hbc|[Hbc|Hbc]]; try tauto.
  - destruct E as [E|[E _]].
    + exact (Str.slt_irrefl _ (Str.slt_trans _ _ _ (Str.slt_trans _ _ _ Hab Hbc) E)).
    + rewrite E in Hbc. exact (Str.slt_irrefl _ (Str.slt_trans _ _ _ Hab Hbc)).
  - rewrite <- Hbc in E. destruct E as [E|[E _]].
    + exact (Str.slt_irrefl _ (Str.slt_trans _ _ _ Hab E)).
    + rewrite E in Hab. now apply Str.slt_irrefl in Hab.
  - rewrite Hab in E. destruct E as [E|[E _]].
    + exact (Str.slt_irrefl _ (Str.slt_trans _ _ _ Hbc E)).
    + rewrite E in Hbc. now apply Str.slt_irrefl in Hbc.
  - destruct E as [E|[_ E]].
    + rewrite Hab, Hbc in E. now apply Str.slt_irrefl in E.
    + assert (~ (p_byte (r_start (o_range b)) < p_byte (r_start (o_range a)))%Z) by (intros X; apply N1; right; auto).
      assert (~ (p_byte (r_start (o_range c)) < p_byte (r_start (o_range b)))%Z) by (intros X; apply N2; right; auto).
      lia.
Qed.

Section Proofs.
  Variable conv : ty -> ty -> bool.
  Variable funcs : fsigs.
  Variable exprs : list (range * oexpr).

  Notation attr_o := (attr_origins_in conv funcs exprs).
  Notation body_o := (body_origins conv funcs exprs).

  (* an attribute the schema does not know (no extension, not declared, no AnyAttribute) yields nothing *)
  Lemma unknown_attribute_yields_nothing bs a : attr_schema_for bs (a_name a) = None -> attr_o bs a = [].
  Proof. unfold attr_origins_in. now intros ->. Qed.

  Definition go_blocks (bs : body_schema) :=
    fix go (l : list block) : list origin * list implied :=
      match l with
      | [] => ([], [])
      | k :: r =>
          let here := match alookup (k_type k) (bs_blocks bs) with
                      | None => ([], [])
                      | Some ks => body_o (fst (merge_block_body_schemas ks k)) (k_body k)
                      end in
          let rest := go r in
          (fst here ++ fst rest, snd here ++ snd rest)
      end.

  Lemma body_origins_eq bs attrs blocks r e :
    body_o bs (Body attrs blocks r e) =
    (flat_map (attr_o bs) attrs ++ fst (go_blocks bs blocks),
     keep_some (map implied_of_sexp (bs_implied bs)) ++ snd (go_blocks bs blocks)).
  Proof. reflexivity. Qed.

  (* a body in which nothing is known to the schema yields no origin at all *)
  Theorem unknown_items_yield_nothing bs attrs blocks r e :
    Forall (fun a => attr_schema_for bs (a_name a) = None) attrs ->
    Forall (fun k => alookup (k_type k) (bs_blocks bs) = None) blocks ->
    fst (body_o bs (Body attrs blocks r e)) = [].
  Proof.
    intros Ha Hk. rewrite body_origins_eq. cbn [fst].
    assert (E1 : flat_map (attr_o bs) attrs = []).
    { induction Ha as [|a l Hx _ IH]; [reflexivity|]. cbn [flat_map]. rewrite IH, (unknown_attribute_yields_nothing _ _ Hx). reflexivity. }
    assert (E2 : fst (go_blocks bs blocks) = []).
    { induction Hk as [|k l Hx _ IH]; [reflexivity|]. cbn [go_blocks]. fold (go_blocks bs). rewrite Hx. cbn [fst app]. exact IH. }
    now rewrite E1, E2.
  Qed.

  (* the collected list is ordered by file and position and contains exactly what was found *)
  Theorem collect_origins_sorted root files :
    StronglySorted (fun a b => origin_ltb b a = false) (collect_origins conv funcs exprs root files).
  Proof.
    unfold collect_origins. destruct root as [sch|]; [|constructor]. unfold sort_origins. apply stable_sort_sorted; [apply origin_asym|apply origin_le_trans].
  Qed.

  (* every reference origin of a schema-known attribute is a reference written in that attribute's value *)
  Theorem attribute_origins_written bs a o :
    In o (attr_o bs a) ->
    match o with
    | OLocal _ _ _ => exists s e, attr_schema_for bs (a_name a) = Some s /\ lookup_expr exprs (a_rng a) = Some e /\
                                  exists tr, In tr (written e) /\ from_trav (ext_has ext_self_refs (bs_ext bs)) o tr
    | OPath r _ _ _ => r = a_name_rng a \/ exists e, lookup_expr exprs (a_rng a) = Some e /\ In r (raw_keys e)
    | ODirect r _ _ => r = expr_range (a_expr a)
    end.
  Proof.
    unfold attr_origins_in. destruct (attr_schema_for bs (a_name a)) as [s|] eqn:Es; [|contradiction].
    intros H. apply in_app_iff in H as [H|H].
    - unfold attr_path_origin in H. destruct (origin_for_of_sexp _) as [f|]; [|contradiction].
      destruct (of_steps f); [contradiction|]. destruct (object_address _ _ _); [|contradiction].
      destruct H as [<-|[]]. now left.
    - apply in_app_iff in H as [H|H].
      + destruct (af_depkey (as_flags s)); [|contradiction]. destruct (targets_of_sexp _) as [[p r]|]; [|contradiction].
        destruct H as [<-|[]]. reflexivity.
      + destruct (lookup_expr exprs (a_rng a)) as [e|] eqn:El; [|contradiction].
        destruct (cons_origins_sound _ _ _ _ _ _ _ H) as [(tr & Hin & Hf)|Hp].
        * destruct o; cbn in Hf; try (destruct tr as [? ? [?|]]; contradiction).
          exists s, e. repeat split; auto. exists tr. auto.
        * destruct o; cbn in Hp; try contradiction. right. exists e. auto.
  Qed.
End Proofs.
