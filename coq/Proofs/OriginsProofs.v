(* C10: every origin of a value is a reference written in it (address and range of that text). *)
From Coq Require Import String List ZArith Bool.
From HV Require Import Base.Sexp Base.Pos Model.Addr Model.DepKeys Model.Schema Model.Ref Model.Collect Model.Origins.
Import ListNotations.
Open Scope list_scope.

(* ---------- induction over expressions *)
Definition key_P (P : oexpr -> Prop) (k : xkey) : Prop := match k with KParens ke _ => P ke | _ => True end.
Definition item_P (P : oexpr -> Prop) (it : xitem) : Prop := match it with XItem k v => key_P P k /\ P v end.
Definition opt_P (P : oexpr -> Prop) (o : option oexpr) : Prop := match o with Some e => P e | None => True end.

Lemma oexpr_ind' (P : oexpr -> Prop) :
  (forall t, P (XTrav t)) ->
  (forall vars elems, Forall P elems -> P (XTuple vars elems)) ->
  (forall vars items, Forall (item_P P) items -> P (XObject vars items)) ->
  (forall lit parts, Forall P parts -> P (XTemplate lit parts)) ->
  (forall e, P e -> P (XWrap e)) ->
  (forall ret p1 p2 l r, P l -> P r -> P (XBinary ret p1 p2 l r)) ->
  (forall ret p e, P e -> P (XUnary ret p e)) ->
  (forall e, P e -> P (XParens e)) ->
  (forall c a b, P c -> P a -> P b -> P (XCond c a b)) ->
  (forall vars coll key val cond, P coll -> opt_P P key -> P val -> opt_P P cond -> P (XFor vars coll key val cond)) ->
  (forall name args, Forall P args -> P (XCall name args)) ->
  (forall vars, P (XOther vars)) ->
  forall e, P e.
Proof.
  intros Htrav Htuple Hobject Htemplate Hwrap Hbinary Hunary Hparens Hcond Hfor Hcall Hother.
  fix IH 1. intros e.
  assert (many : forall l, Forall P l).
  { induction l as [|x r IHl]; constructor; [apply IH|exact IHl]. }
  destruct e as [t|vars elems|vars items|lit parts|e|ret p1 p2 l r|ret p e|e|c a b|vars coll key val cond|name args|vars].
  - apply Htrav.
  - apply Htuple, many.
  - apply Hobject. induction items as [|it r IHi]; constructor; [|exact IHi].
    destruct it as [k v]. split; [|apply IH]. destruct k as [n rg|ke rg|rg]; cbn; [exact I|apply IH|exact I].
  - apply Htemplate, many.
  - apply Hwrap, IH.
  - apply Hbinary; apply IH.
  - apply Hunary, IH.
  - apply Hparens, IH.
  - apply Hcond; apply IH.
  - apply Hfor; try apply IH; [destruct key|destruct cond]; cbn; try apply IH; exact I.
  - apply Hcall, many.
  - apply Hother.
Qed.

(* ---------- what is written in an expression *)
Definition key_written (w : oexpr -> list trav) (k : xkey) : list trav := match k with KParens ke _ => w ke | _ => [] end.
Definition opt_written (w : oexpr -> list trav) (o : option oexpr) : list trav := match o with Some e => w e | None => [] end.

Fixpoint written (e : oexpr) : list trav :=
  match e with
  | XTrav t => [t]
  | XTuple vars elems => vars ++ flat_map written elems
  | XObject vars items => vars ++ flat_map (fun it => match it with XItem k v => key_written written k ++ written v end) items
  | XTemplate _ parts => flat_map written parts
  | XWrap x | XParens x | XUnary _ _ x => written x
  | XBinary _ _ _ l r => written l ++ written r
  | XCond c a b => written c ++ written a ++ written b
  | XFor vars coll key val cond => vars ++ written coll ++ opt_written written key ++ written val ++ opt_written written cond
  | XCall _ args => flat_map written args
  | XOther vars => vars
  end.

Section Proofs.
  Variable conv : ty -> ty -> bool.
  Variable allow_self : bool.
  Variable funcs : fsigs.
  Variable origin_for_of : sexp -> option origin_for.

  Notation any := (any_origins conv allow_self funcs).
  Notation cons := (cons_origins conv allow_self funcs origin_for_of).

  (* the origin [o] is the traversal [tr] as written: its address, exactly its range; a self.*
     traversal only where self references are enabled *)
  Definition from_trav (o : origin) (tr : trav) : Prop :=
    match o, tr with
    | OLocal a r _, Trav r' self (Some a') => a = a' /\ r = r' /\ (self = false \/ allow_self = true)
    | _, _ => False
    end.

  Definition from_written (e : oexpr) (o : origin) : Prop := exists tr, In tr (written e) /\ from_trav o tr.

  Lemma from_written_incl e e' o : (forall tr, In tr (written e') -> In tr (written e)) -> from_written e' o -> from_written e o.
  Proof. intros Hi (tr & Hin & Hf). exists tr. auto. Qed.

  Lemma trav_origin_from cs tr o : In o (trav_origin allow_self cs tr) -> from_trav o tr.
  Proof.
    destruct tr as [r self addr]. unfold trav_origin, traversal_to_local_origin.
    destruct self eqn:Es, allow_self eqn:Ea; cbn [andb negb]; try contradiction;
      (destruct addr as [a|]; [|contradiction]); intros [<-|[]]; cbn; rewrite ?Ea; auto.
  Qed.

  Lemma fallback_from vars o : In o (fallback allow_self vars) -> exists tr, In tr vars /\ from_trav o tr.
  Proof.
    unfold fallback. intros H. apply in_flat_map in H as (tr & Hin & H). exists tr. split; [exact Hin|].
    eapply trav_origin_from; eauto.
  Qed.

  (* merging never invents a reference: every merged origin has the address and range of an input *)
  Definition same_place (a b : origin) : Prop :=
    match a, b with
    | OLocal x r _, OLocal y s _ => x = y /\ r = s
    | OPath r x p _, OPath s y q _ => x = y /\ r = s /\ p = q
    | ODirect r p t, ODirect s q u => r = s /\ p = q /\ t = u
    | _, _ => False
    end.

  Lemma same_place_refl a : same_place a a.
  Proof. destruct a; cbn; auto. Qed.

  Lemma merge_into_place l n r o : merge_into l n = Some r -> In o r -> exists o', In o' l /\ same_place o o'.
  Proof.
    revert r. induction l as [|x rest IH]; intros r; cbn [merge_into]; [discriminate|].
    destruct (same_ref x n).
    - intros H; inversion H; subst. intros [<-|Hin].
      + exists x. split; [now left|]. destruct x; cbn; auto.
      + exists o. split; [now right|apply same_place_refl].
    - destruct (merge_into rest n) as [r'|] eqn:E; [|discriminate]. intros H; inversion H; subst.
      intros [Ex|Hin].
      + exists o. split; [now left|apply same_place_refl].
      + destruct (IH r' eq_refl Hin) as (o' & Ho' & Hs). exists o'. split; [now right|exact Hs].
  Qed.

  Lemma append_origins_place news : forall origins o,
    In o (append_origins origins news) -> exists o', In o' (origins ++ news) /\ same_place o o'.
  Proof.
    induction news as [|n rest IH]; intros origins o; cbn [append_origins].
    - intros H. exists o. rewrite app_nil_r. split; [exact H|apply same_place_refl].
    - assert (Happ : In o (append_origins (origins ++ [n]) rest) -> exists o', In o' (origins ++ n :: rest) /\ same_place o o').
      { intros H. destruct (IH _ _ H) as (o' & Hin & Hs). exists o'. split; [|exact Hs].
        rewrite <- app_assoc in Hin. exact Hin. }
      destruct (o_addr n); [|exact Happ].
      destruct (merge_into origins n) as [merged|] eqn:E; [|exact Happ].
      intros H. destruct (IH _ _ H) as (o' & Hin & Hs). apply in_app_iff in Hin as [Hin|Hin].
      + destruct (merge_into_place _ _ _ _ E Hin) as (o'' & Hin' & Hs').
        exists o''. split; [apply in_app_iff; now left|].
        destruct o, o', o''; cbn in *; intuition congruence.
      + exists o'. split; [apply in_app_iff; right; now right|exact Hs].
  Qed.

  Lemma from_trav_place o o' tr : same_place o o' -> from_trav o' tr -> from_trav o tr.
  Proof. destruct o, o', tr as [r self [a|]]; cbn; intuition congruence. Qed.

  (* ---------- equations of any_origins, one per node kind *)
  Definition key_o (k : xkey) : list origin := match k with KParens ke _ => any TStr ke | _ => [] end.

  Lemma any_trav t tr : any t (XTrav tr) = trav_origin allow_self (any_cons t) tr.
  Proof. destruct t; reflexivity. Qed.

  Lemma any_tuple t vars elems :
    any t (XTuple vars elems) =
    match t with
    | TList el | TSet el => flat_map (any el) elems
    | TTuple _ => []
    | _ => fallback allow_self vars
    end.
  Proof.
    destruct t; try reflexivity;
      (induction elems as [|a r IH]; [reflexivity|]; cbn [flat_map]; rewrite <- IH; reflexivity).
  Qed.

  Lemma any_object t vars items :
    any t (XObject vars items) =
    match t with
    | TMap el => flat_map (fun it => match it with XItem k v => key_o k ++ any el v end) items
    | TObject [] => []
    | TObject _ => flat_map (fun it => match it with XItem k _ => key_o k end) items
    | _ => fallback allow_self vars
    end.
  Proof.
    destruct t as [| | | | | | | |ts|[|a ats]]; try reflexivity;
      (induction items as [|[k v] r IH]; [reflexivity|]; cbn [flat_map]; rewrite <- IH; destruct k; reflexivity).
  Qed.

  Lemma any_template t lit parts : any t (XTemplate lit parts) = if lit then [] else flat_map (any TStr) parts.
  Proof.
    destruct lit; [destruct t; reflexivity|].
    induction parts as [|a r IH]; [destruct t; reflexivity|]. cbn [flat_map]. rewrite <- IH. destruct t; reflexivity.
  Qed.

  Lemma any_wrap t e : any t (XWrap e) = any TStr e.
  Proof. destruct t; reflexivity. Qed.

  Lemma any_parens t e : any t (XParens e) = any t e.
  Proof. destruct t; reflexivity. Qed.

  Lemma any_binary t ret p1 p2 l r :
    any t (XBinary ret p1 p2 l r) = if conv ret t then any p1 l ++ any p2 r else [].
  Proof. destruct t; reflexivity. Qed.

  Lemma any_unary t ret p e : any t (XUnary ret p e) = if conv ret t then any p e else [].
  Proof. destruct t; reflexivity. Qed.

  Lemma any_cond t c a b : any t (XCond c a b) = any TBool c ++ any t a ++ any t b.
  Proof. destruct t; reflexivity. Qed.

  Lemma any_for t vars coll key val cond :
    any t (XFor vars coll key val cond) =
    match iter_key_type t, iter_val_type t with
    | Some kt, Some vt =>
        fold_left (fun acc ct => append_origins acc (any ct coll)) for_coll_types [] ++
        match key with Some ke => any kt ke | None => [] end ++ any vt val ++
        match cond with Some ce => any TBool ce | None => [] end
    | _, _ => fallback allow_self vars
    end.
  Proof. destruct t; reflexivity. Qed.

  Fixpoint zip_args (params : list ty) (varp : option ty) (l : list oexpr) : list origin :=
    match l with
    | [] => []
    | a :: r =>
        match params with
        | p :: ps => any p a ++ zip_args ps varp r
        | [] => match varp with Some vt => any vt a ++ zip_args [] varp r | None => [] end
        end
    end.

  Lemma any_call t name args :
    any t (XCall name args) =
    match alookup name funcs with
    | None => []
    | Some (params, varp) => match params, varp with [], None => [] | _, _ => zip_args params varp args end
    end.
  Proof.
    assert (E : forall args params varp,
      (fix args_origins (params : list ty) (varp : option ty) (l : list oexpr) {struct l} : list origin :=
         match l with
         | [] => []
         | a :: r =>
             match params with
             | p :: ps => any p a ++ args_origins ps varp r
             | [] => match varp with Some vt => any vt a ++ args_origins [] varp r | None => [] end
             end
         end) params varp args = zip_args params varp args).
    { induction args0 as [|a r IH]; intros params varp; [reflexivity|]. cbn [zip_args].
      destruct params as [|p ps]; [destruct varp|]; try reflexivity; rewrite <- IH; reflexivity. }
    destruct t; cbn [any_origins]; destruct (alookup name funcs) as [[params varp]|]; try reflexivity;
      destruct params, varp; try reflexivity; apply E.
  Qed.

  Lemma any_other t vars : any t (XOther vars) = fallback allow_self vars.
  Proof. destruct t; reflexivity. Qed.

  (* ---------- soundness of the value-level descent under an any-expression constraint *)
  Lemma flat_map_from {A} (f : A -> list origin) (w : A -> list trav) (l : list A) o :
    Forall (fun x => forall o, In o (f x) -> exists tr, In tr (w x) /\ from_trav o tr) l ->
    In o (flat_map f l) -> exists tr, In tr (flat_map w l) /\ from_trav o tr.
  Proof.
    intros HF H. apply in_flat_map in H as (x & Hx & H). rewrite Forall_forall in HF.
    destruct (HF x Hx o H) as (tr & Hin & Hf). exists tr. split; [|exact Hf]. apply in_flat_map. exists x. auto.
  Qed.

  Ltac lift := match goal with
    | H : exists tr, In tr _ /\ from_trav _ tr |- _ =>
        let tr := fresh "tr" in let Hin := fresh "Hin" in let Hf := fresh "Hf" in
        destruct H as (tr & Hin & Hf); exists tr; split; [|exact Hf]; cbn [written]; repeat rewrite in_app_iff; auto 8
    end.

  Theorem any_origins_written : forall e t o, In o (any t e) -> from_written e o.
  Proof.
    unfold from_written.
    induction e as [tr|vars elems IH|vars items IH|lit parts IH|e IH|ret p1 p2 l r IHl IHr|ret p e IH|e IH
                    |c a b IHc IHa IHb|vars coll key val cond IHcoll IHkey IHval IHcond|name args IH|vars] using oexpr_ind';
      intros t o H.
    - rewrite any_trav in H. exists tr. split; [now left|]. eapply trav_origin_from; eauto.
    - rewrite any_tuple in H.
      assert (Hel : forall el, In o (flat_map (any el) elems) -> exists tr, In tr (written (XTuple vars elems)) /\ from_trav o tr).
      { intros el H'. apply (flat_map_from (any el) written) in H'.
        - lift.
        - eapply Forall_impl; [|exact IH]. cbn. intros x Hx o' Ho'. eapply Hx; eauto. }
      assert (Hfb : In o (fallback allow_self vars) -> exists tr, In tr (written (XTuple vars elems)) /\ from_trav o tr).
      { intros H'. apply fallback_from in H'. lift. }
      destruct t; eauto; contradiction.
    - rewrite any_object in H.
      assert (Hk : forall k o', key_P (fun e => forall t o, In o (any t e) -> exists tr, In tr (written e) /\ from_trav o tr) k ->
                                In o' (key_o k) -> exists tr, In tr (key_written written k) /\ from_trav o' tr).
      { intros [n rg|ke rg|rg] o' HP Ho'; cbn in *; try contradiction. eapply HP; eauto. }
      assert (Hfb : In o (fallback allow_self vars) -> exists tr, In tr (written (XObject vars items)) /\ from_trav o tr).
      { intros H'. apply fallback_from in H'. lift. }
      assert (Hmap : forall el, In o (flat_map (fun it => match it with XItem k v => key_o k ++ any el v end) items) ->
                     exists tr, In tr (written (XObject vars items)) /\ from_trav o tr).
      { intros el H'.
        apply (flat_map_from _ (fun it => match it with XItem k v => key_written written k ++ written v end)) in H'.
        - lift.
        - eapply Forall_impl; [|exact IH]. intros [k v] [HPk HPv] o' Ho'. apply in_app_iff in Ho' as [Ho'|Ho'].
          + destruct (Hk k o' HPk Ho') as (tr & Hin & Hf). exists tr. split; [apply in_app_iff; now left|exact Hf].
          + destruct (HPv el o' Ho') as (tr & Hin & Hf). exists tr. split; [apply in_app_iff; now right|exact Hf]. }
      assert (Hobj : In o (flat_map (fun it => match it with XItem k _ => key_o k end) items) ->
                     exists tr, In tr (written (XObject vars items)) /\ from_trav o tr).
      { intros H'.
        apply (flat_map_from _ (fun it => match it with XItem k v => key_written written k ++ written v end)) in H'.
        - lift.
        - eapply Forall_impl; [|exact IH]. intros [k v] [HPk HPv] o' Ho'.
          destruct (Hk k o' HPk Ho') as (tr & Hin & Hf). exists tr. split; [apply in_app_iff; now left|exact Hf]. }
      destruct t as [| | | | | | | |ts|[|a ats]]; eauto; contradiction.
    - rewrite any_template in H. destruct lit; [contradiction|].
      apply (flat_map_from (any TStr) written) in H; [lift|].
      eapply Forall_impl; [|exact IH]. cbn. intros x Hx o' Ho'. eapply Hx; eauto.
    - rewrite any_wrap in H. apply IH in H. lift.
    - rewrite any_binary in H. destruct (conv ret t); [|contradiction].
      apply in_app_iff in H as [H|H]; [apply IHl in H|apply IHr in H]; lift.
    - rewrite any_unary in H. destruct (conv ret t); [|contradiction]. apply IH in H. lift.
    - rewrite any_parens in H. apply IH in H. lift.
    - rewrite any_cond in H. apply in_app_iff in H as [H|H]; [apply IHc in H; lift|].
      apply in_app_iff in H as [H|H]; [apply IHa in H|apply IHb in H]; lift.
    - rewrite any_for in H.
      destruct (iter_key_type t) as [kt|]; [destruct (iter_val_type t) as [vt|]|];
        try (apply fallback_from in H; lift).
      apply in_app_iff in H as [H|H].
      + (* the collection, merged over the five shapes *)
        assert (G : forall cts acc, (forall o, In o acc -> exists tr, In tr (written coll) /\ from_trav o tr) ->
                    forall o, In o (fold_left (fun acc ct => append_origins acc (any ct coll)) cts acc) ->
                    exists tr, In tr (written coll) /\ from_trav o tr).
        { induction cts as [|ct r IHc]; intros acc Hacc o' Ho'; cbn [fold_left] in Ho'; [auto|].
          apply (IHc _) in Ho'; [exact Ho'|]. intros o'' Ho''.
          apply append_origins_place in Ho'' as (o3 & Hin & Hs). apply in_app_iff in Hin as [Hin|Hin].
          - destruct (Hacc _ Hin) as (tr & Ht & Hf). exists tr. split; [exact Ht|]. eapply from_trav_place; eauto.
          - destruct (IHcoll _ _ Hin) as (tr & Ht & Hf). exists tr. split; [exact Ht|]. eapply from_trav_place; eauto. }
        apply G in H; [lift|]. intros o' [].
      + apply in_app_iff in H as [H|H].
        * destruct key as [ke|]; [|contradiction]. cbn in IHkey. apply IHkey in H. lift.
        * apply in_app_iff in H as [H|H]; [apply IHval in H; lift|].
          destruct cond as [ce|]; [|contradiction]. cbn in IHcond. apply IHcond in H. lift.
    - rewrite any_call in H. destruct (alookup name funcs) as [[params varp]|]; [|contradiction].
      assert (G : forall l params varp, Forall (fun e => forall t o, In o (any t e) -> exists tr, In tr (written e) /\ from_trav o tr) l ->
                  forall o, In o (zip_args params varp l) -> exists tr, In tr (flat_map written l) /\ from_trav o tr).
      { induction l as [|a r IHl]; intros ps vp HF o' Ho'; [contradiction|]. inversion HF as [|? ? Ha Hr]; subst.
        cbn [zip_args] in Ho'. cbn [flat_map].
        assert (Hhead : forall t', In o' (any t' a) -> exists tr, In tr (written a ++ flat_map written r) /\ from_trav o' tr).
        { intros t' H'. destruct (Ha _ _ H') as (tr & Hin & Hf). exists tr. split; [apply in_app_iff; now left|exact Hf]. }
        assert (Htail : forall ps' vp', In o' (zip_args ps' vp' r) -> exists tr, In tr (written a ++ flat_map written r) /\ from_trav o' tr).
        { intros ps' vp' H'. destruct (IHl _ _ Hr _ H') as (tr & Hin & Hf). exists tr. split; [apply in_app_iff; now right|exact Hf]. }
        destruct ps as [|p ps']; [destruct vp as [vt|]; [|contradiction]|];
          apply in_app_iff in Ho' as [Ho'|Ho']; eauto. }
      destruct params, varp; try contradiction; apply (G _ _ _ IH) in H; lift.
    - rewrite any_other in H. apply fallback_from in H. lift.
  Qed.

  (* ---------- all constraint kinds *)
  Definition raw_key_range (k : xkey) : list range := match k with KRaw _ r => [r] | _ => [] end.

  Fixpoint raw_keys (e : oexpr) : list range :=
    match e with
    | XTuple _ elems => flat_map raw_keys elems
    | XObject _ items => flat_map (fun it => match it with XItem k v => raw_key_range k ++ raw_keys v end) items
    | _ => []
    end.

  (* a path origin sits on a literal key of an object written in the value *)
  Definition path_at_key (e : oexpr) (o : origin) : Prop :=
    match o with OPath r _ _ _ => In r (raw_keys e) | _ => False end.

  Definition sound (e : oexpr) (o : origin) : Prop := from_written e o \/ path_at_key e o.

  Lemma sound_place e o o' : same_place o o' -> sound e o' -> sound e o.
  Proof.
    intros Hs [(tr & Hin & Hf)|Hp].
    - left. exists tr. split; [exact Hin|]. eapply from_trav_place; eauto.
    - right. destruct o, o'; cbn in *; try contradiction. destruct Hs as (_ & -> & _). exact Hp.
  Qed.

  Definition copt_P (P : constraint -> Prop) (o : option constraint) : Prop := match o with Some c => P c | None => True end.

  Lemma constraint_ind' (P : constraint -> Prop) :
    (forall t s, P (CAny t s)) -> (forall t s, P (CLitType t s)) -> (forall v t d, P (CLitValue v t d)) ->
    (forall k n, P (CKeyword k n)) -> (forall s t n a, P (CRef s t n a)) -> P CTypeDecl ->
    (forall e mn mx, copt_P P e -> P (CList e mn mx)) ->
    (forall e mn mx, copt_P P e -> P (CSet e mn mx)) ->
    (forall es, Forall P es -> P (CTuple es)) ->
    (forall e n i mn mx, copt_P P e -> P (CMap e n i mn mx)) ->
    (forall ats nl n i, Forall (fun na => P (as_cons (snd na))) ats -> P (CObject ats nl n i)) ->
    (forall cs, Forall P cs -> P (COneOf cs)) ->
    forall c, P c.
  Proof.
    intros H1 H2 H3 H4 H5 H6 H7 H8 H9 H10 H11 H12. fix IH 1. intros c.
    assert (many : forall l, Forall P l).
    { induction l as [|x r IHl]; constructor; [apply IH|exact IHl]. }
    destruct c as [t s|t s|v t d|k n|s t n a| |e mn mx|e mn mx|es|e n i mn mx|ats nl n i|cs].
    - apply H1.
    - apply H2.
    - apply H3.
    - apply H4.
    - apply H5.
    - apply H6.
    - apply H7. destruct e; cbn; [apply IH|exact I].
    - apply H8. destruct e; cbn; [apply IH|exact I].
    - apply H9, many.
    - apply H10. destruct e; cbn; [apply IH|exact I].
    - apply H11. induction ats as [|[nm a] r IHa]; constructor; [|exact IHa]. destruct a. cbn. apply IH.
    - apply H12, many.
  Qed.

  Fixpoint zip_cons (es : list constraint) (l : list oexpr) : list origin :=
    match es, l with
    | ec :: es', x :: l' => cons ec x ++ zip_cons es' l'
    | _, _ => []
    end.

  Lemma cons_tuple es vars elems : cons (CTuple es) (XTuple vars elems) = zip_cons es elems.
  Proof.
    cbn [cons_origins]. revert elems. induction es as [|ec r IH]; intros [|x l]; reflexivity.
  Qed.

  Definition oft_origin (name : string) (krng : range) (og : sexp) : list origin :=
    match origin_for_of og with
    | Some f =>
        match of_steps f with
        | [] => []
        | st => match object_address name 0 st with
                | Some ad => [OPath krng ad (of_path f) [{| oc_scope := of_scope f; oc_type := of_type f |}]]
                | None => []
                end
        end
    | None => []
    end.

  Fixpoint attr_origins (name : string) (krng : range) (v : oexpr) (l : list (string * attr_schema)) : list origin :=
    match l with
    | [] => []
    | (n, a) :: r =>
        if String.eqb n name then cons (as_cons a) v ++ oft_origin name krng (match a with AttrSchema _ _ _ _ _ _ _ og => og end)
        else attr_origins name krng v r
    end.

  Lemma cons_object ats nl n i vars items :
    cons (CObject ats nl n i) (XObject vars items) =
    match ats with
    | [] => []
    | _ => flat_map (fun it => match it with XItem k v =>
             key_o k ++ match k with KRaw name krng => attr_origins name krng v ats | _ => [] end end) items
    end.
  Proof.
    assert (E : forall name krng v l,
      (fix find (l : list (string * attr_schema)) : list origin :=
         match l with
         | [] => []
         | (n0, a0) :: r =>
             if String.eqb n0 name then
               cons (as_cons a0) v ++
               match a0 with AttrSchema _ _ _ _ _ _ _ og =>
                 match origin_for_of og with
                 | Some f =>
                     match of_steps f with
                     | [] => []
                     | st => match object_address name 0 st with
                             | Some ad => [OPath krng ad (of_path f) [{| oc_scope := of_scope f; oc_type := of_type f |}]]
                             | None => []
                             end
                     end
                 | None => []
                 end
               end
             else find r
         end) l = attr_origins name krng v l).
    { intros name krng v. induction l as [|[m a] r IH]; [reflexivity|]. cbn [attr_origins].
      destruct (String.eqb m name); [|exact IH]. destruct a. reflexivity. }
    destruct ats as [|na ats']; [reflexivity|]. cbn [cons_origins].
    apply flat_map_ext. intros [k v]. f_equal. destruct k as [name krng|ke krng|krng]; try reflexivity.
    exact (E name krng v (na :: ats')).
  Qed.

  Lemma cons_oneof cs e : cons (COneOf cs) e = fold_left (fun acc a => append_origins acc (cons a e)) cs [].
  Proof.
    cbn [cons_origins]. generalize (@nil origin). induction cs as [|a r IH]; intros acc; [reflexivity|].
    cbn [fold_left]. apply IH.
  Qed.

  Lemma sound_tuple_elem vars elems x o : In x elems -> sound x o -> sound (XTuple vars elems) o.
  Proof.
    intros Hx [(tr & Hin & Hf)|Hp].
    - left. exists tr. split; [|exact Hf]. cbn [written]. apply in_app_iff. right. apply in_flat_map. eauto.
    - right. destruct o; cbn in *; try contradiction. apply in_flat_map. eauto.
  Qed.

  Lemma sound_item_value vars items k v o : In (XItem k v) items -> sound v o -> sound (XObject vars items) o.
  Proof.
    intros Hx [(tr & Hin & Hf)|Hp].
    - left. exists tr. split; [|exact Hf]. cbn [written]. apply in_app_iff. right. apply in_flat_map.
      exists (XItem k v). split; [exact Hx|]. apply in_app_iff. now right.
    - right. destruct o; cbn in *; try contradiction. apply in_flat_map.
      exists (XItem k v). split; [exact Hx|]. apply in_app_iff. now right.
  Qed.

  Lemma sound_item_key vars items k v o : In (XItem k v) items -> In o (key_o k) -> sound (XObject vars items) o.
  Proof.
    intros Hx Ho. left. destruct k as [nm rg|ke rg|rg]; cbn in Ho; try contradiction.
    destruct (any_origins_written _ _ _ Ho) as (tr & Hin & Hf). exists tr. split; [|exact Hf].
    cbn [written]. apply in_app_iff. right. apply in_flat_map.
    exists (XItem (KParens ke rg) v). split; [exact Hx|]. apply in_app_iff. now left.
  Qed.

  (* every origin of a value, under any constraint, is a reference written in that value - with
     the address the text denotes and exactly its range, self.* only where enabled - or the
     declared path origin of a literal object key *)
  Theorem cons_origins_sound : forall c e o, In o (cons c e) -> sound e o.
  Proof.
    induction c as [t s|t s|v t d|k n|s t n a| |ec mn mx IH|ec mn mx IH|es IH|ec n i mn mx IH|ats nl n i IH|cs IH]
      using constraint_ind'; intros e o H; try contradiction.
    - left. eapply any_origins_written; eauto.
    - cbn [cons_origins] in H. destruct e; try contradiction. left. exists t0. split; [now left|].
      eapply trav_origin_from; eauto.
    - destruct ec as [ec|]; [|contradiction]. cbn [cons_origins] in H. destruct e; try contradiction.
      apply in_flat_map in H as (x & Hx & H). eapply sound_tuple_elem; [exact Hx|]. apply IH. exact H.
    - destruct ec as [ec|]; [|contradiction]. cbn [cons_origins] in H. destruct e; try contradiction.
      apply in_flat_map in H as (x & Hx & H). eapply sound_tuple_elem; [exact Hx|]. apply IH. exact H.
    - destruct e; try contradiction. rewrite cons_tuple in H.
      assert (G : forall es l, Forall (fun c => forall e o, In o (cons c e) -> sound e o) es ->
                  In o (zip_cons es l) -> exists x, In x l /\ sound x o).
      { induction es0 as [|ec r IHes]; intros [|x l'] HF Ho; try contradiction.
        inversion HF as [|? ? Hc Hr]; subst. cbn [zip_cons] in Ho. apply in_app_iff in Ho as [Ho|Ho].
        - exists x. split; [now left|]. eapply Hc; eauto.
        - destruct (IHes l' Hr Ho) as (y & Hy & Hs). exists y. split; [now right|exact Hs]. }
      destruct (G _ _ IH H) as (x & Hx & Hs). eapply sound_tuple_elem; eauto.
    - destruct ec as [ec|]; [|contradiction]. cbn [cons_origins] in H. destruct e; try contradiction.
      apply in_flat_map in H as ([k v] & Hx & H). apply in_app_iff in H as [H|H].
      + eapply sound_item_key; eauto.
      + eapply sound_item_value; [exact Hx|]. apply IH. exact H.
    - destruct e; try contradiction. rewrite cons_object in H. destruct ats as [|na ats']; [contradiction|].
      apply in_flat_map in H as ([k v] & Hx & H). apply in_app_iff in H as [H|H]; [eapply sound_item_key; eauto|].
      destruct k as [name krng|ke krng|krng]; try contradiction.
      revert H. generalize (na :: ats') IH. clear IH. induction l as [|[m a] r IHl]; intros HF H; [contradiction|].
      inversion HF as [|? ? Ha Hr]; subst. cbn [attr_origins] in H. destruct (String.eqb m name); [|now apply IHl].
      apply in_app_iff in H as [H|H].
      * eapply sound_item_value; [exact Hx|]. apply Ha. exact H.
      * right. unfold oft_origin in H. destruct (origin_for_of _) as [f|]; [|contradiction].
        destruct (of_steps f); [contradiction|]. destruct (object_address _ _ _); [|contradiction].
        destruct H as [<-|[]]. cbn [path_at_key raw_keys]. apply in_flat_map.
        exists (XItem (KRaw name krng) v). split; [exact Hx|]. apply in_app_iff. left. now left.
    - rewrite cons_oneof in H.
      assert (G : forall l acc, Forall (fun c => forall e o, In o (cons c e) -> sound e o) l ->
                  (forall o, In o acc -> sound e o) ->
                  forall o, In o (fold_left (fun acc a => append_origins acc (cons a e)) l acc) -> sound e o).
      { induction l as [|a r IHl]; intros acc HF Hacc o' Ho'; cbn [fold_left] in Ho'; [auto|].
        inversion HF as [|? ? Ha Hr]; subst. apply (IHl _ Hr) in Ho'; [exact Ho'|].
        intros o'' Ho''. apply append_origins_place in Ho'' as (o3 & Hin & Hs).
        eapply sound_place; [exact Hs|]. apply in_app_iff in Hin as [Hin|Hin]; [auto|eapply Ha; eauto]. }
      eapply G; eauto. intros o' [].
  Qed.

  (* places the constraint reserves for literals, keywords or type names yield nothing *)
  Theorem literal_places_yield_nothing c e :
    match c with CLitType _ _ | CLitValue _ _ _ | CKeyword _ _ | CTypeDecl => True | _ => False end ->
    cons c e = [].
  Proof. destruct c; try contradiction; reflexivity. Qed.

  (* text without any reference yields no local origin *)
  Theorem no_reference_no_origin c e o : written e = [] -> In o (cons c e) -> match o with OLocal _ _ _ => False | _ => True end.
  Proof.
    intros Hw H. destruct (cons_origins_sound _ _ _ H) as [(tr & Hin & _)|Hp].
    - rewrite Hw in Hin. contradiction.
    - destruct o; cbn in *; auto.
  Qed.

  (* ---------- completeness on the fragment without for expressions: every reference written under
     operators that fit, templates, conditionals, parentheses, arguments of known functions (within
     their arity), list/set literals under list/set types and map literals under map types - at any
     depth - yields an origin *)
  Definition key_covered (cov : ty -> oexpr -> bool) (k : xkey) : bool :=
    match k with KParens ke _ => cov TStr ke | _ => true end.

  Fixpoint covered (t : ty) (e : oexpr) {struct e} : bool :=
    let fix args_cov (params : list ty) (varp : option ty) (l : list oexpr) : bool :=
      match l with
      | [] => true
      | a :: r =>
          match params with
          | p :: ps => covered p a && args_cov ps varp r
          | [] => match varp with Some vt => covered vt a && args_cov [] varp r | None => false end
          end
      end in
    match e with
    | XTrav _ => true
    | XOther _ => true
    | XParens x => covered t x
    | XWrap x => covered TStr x
    | XTemplate lit parts => negb lit && forallb (covered TStr) parts
    | XBinary ret p1 p2 l r => conv ret t && covered p1 l && covered p2 r
    | XUnary ret p x => conv ret t && covered p x
    | XCond c a b => covered TBool c && covered t a && covered t b
    | XCall name args =>
        match alookup name funcs with
        | Some (params, varp) => match params, varp with [], None => false | _, _ => args_cov params varp args end
        | None => false
        end
    | XTuple _ elems => match t with TList el | TSet el => forallb (covered el) elems | _ => false end
    | XObject _ items =>
        match t with
        | TMap el => forallb (fun it => match it with XItem k v => key_covered covered k && covered el v end) items
        | _ => false
        end
    | XFor _ _ _ _ _ => false
    end.

  Definition collectable (tr : trav) : Prop :=
    match tr with Trav _ self (Some _) => self = false \/ allow_self = true | _ => False end.

  Definition has_origin (l : list origin) (tr : trav) : Prop := exists o, In o l /\ from_trav o tr.

  Lemma trav_origin_complete cs tr : collectable tr -> has_origin (trav_origin allow_self cs tr) tr.
  Proof.
    destruct tr as [r self [a|]]; cbn [collectable]; [|contradiction]. intros Hc.
    unfold trav_origin, traversal_to_local_origin.
    assert (E : self && negb allow_self = false) by (destruct Hc as [->| ->]; [reflexivity|apply andb_false_r]).
    rewrite E. exists (OLocal a r cs). split; [now left|]. cbn. auto.
  Qed.

  Lemma has_origin_app_l a b tr : has_origin a tr -> has_origin (a ++ b) tr.
  Proof. intros (o & Hin & Hf). exists o. split; [apply in_app_iff; now left|exact Hf]. Qed.
  Lemma has_origin_app_r a b tr : has_origin b tr -> has_origin (a ++ b) tr.
  Proof. intros (o & Hin & Hf). exists o. split; [apply in_app_iff; now right|exact Hf]. Qed.

  Lemma has_origin_flat_map {A} (f : A -> list origin) (l : list A) x tr : In x l -> has_origin (f x) tr -> has_origin (flat_map f l) tr.
  Proof. intros Hx (o & Hin & Hf). exists o. split; [apply in_flat_map; eauto|exact Hf]. Qed.

  (* the references written in an expression, syntactically: traversal nodes and what Variables()
     reports for nodes the model does not look into *)
  Fixpoint leaves (e : oexpr) : list trav :=
    match e with
    | XTrav t => [t]
    | XTuple _ elems => flat_map leaves elems
    | XObject _ items => flat_map (fun it => match it with XItem k v => key_written leaves k ++ leaves v end) items
    | XTemplate _ parts => flat_map leaves parts
    | XWrap x | XParens x | XUnary _ _ x => leaves x
    | XBinary _ _ _ l r => leaves l ++ leaves r
    | XCond c a b => leaves c ++ leaves a ++ leaves b
    | XFor _ coll key val cond => leaves coll ++ opt_written leaves key ++ leaves val ++ opt_written leaves cond
    | XCall _ args => flat_map leaves args
    | XOther vars => vars
    end.

  Fixpoint args_cov (params : list ty) (varp : option ty) (l : list oexpr) : bool :=
    match l with
    | [] => true
    | a :: r =>
        match params with
        | p :: ps => covered p a && args_cov ps varp r
        | [] => match varp with Some vt => covered vt a && args_cov [] varp r | None => false end
        end
    end.

  Lemma covered_call t name args :
    covered t (XCall name args) =
    match alookup name funcs with
    | Some (params, varp) => match params, varp with [], None => false | _, _ => args_cov params varp args end
    | None => false
    end.
  Proof.
    cbn [covered]. destruct (alookup name funcs) as [[params varp]|]; [|reflexivity].
    assert (E : forall l ps vp,
      (fix args_cov (params : list ty) (varp : option ty) (l : list oexpr) {struct l} : bool :=
         match l with
         | [] => true
         | a :: r =>
             match params with
             | p :: ps => covered p a && args_cov ps varp r
             | [] => match varp with Some vt => covered vt a && args_cov [] varp r | None => false end
             end
         end) ps vp l = args_cov ps vp l).
    { induction l as [|a r IHl]; intros ps vp; [reflexivity|]. cbn [args_cov].
      destruct ps as [|p ps']; [destruct vp|]; try reflexivity; rewrite <- IHl; reflexivity. }
    destruct params, varp; try reflexivity; apply E.
  Qed.

  Theorem any_origins_complete : forall e t tr,
    covered t e = true -> In tr (leaves e) -> collectable tr -> has_origin (any t e) tr.
  Proof.
    induction e as [tr0|vars elems IH|vars items IH|lit parts IH|e IH|ret p1 p2 l r IHl IHr|ret p e IH|e IH
                    |c a b IHc IHa IHb|vars coll key val cond IHcoll IHkey IHval IHcond|name args IH|vars] using oexpr_ind';
      intros t tr Hc Hw Hcol.
    - destruct Hw as [<-|[]]. rewrite any_trav. now apply trav_origin_complete.
    - cbn [covered] in Hc. rewrite any_tuple. cbn [leaves] in Hw.
      assert (G : forall el, forallb (covered el) elems = true -> has_origin (flat_map (any el) elems) tr).
      { intros el Hf. apply in_flat_map in Hw as (x & Hx & Hin). rewrite forallb_forall in Hf.
        rewrite Forall_forall in IH. eapply has_origin_flat_map; [exact Hx|]. apply IH; auto. }
      destruct t; try discriminate; now apply G.
    - cbn [covered] in Hc. rewrite any_object. cbn [leaves] in Hw.
      destruct t; try discriminate. rewrite forallb_forall in Hc.
      apply in_flat_map in Hw as ([k v] & Hx & Hin). specialize (Hc _ Hx). cbn in Hc.
      apply andb_true_iff in Hc as [Hk Hv]. rewrite Forall_forall in IH. destruct (IH _ Hx) as [IHk IHv].
      eapply has_origin_flat_map; [exact Hx|]. cbn. apply in_app_iff in Hin as [Hin|Hin].
      + apply has_origin_app_l. destruct k as [nm rg|ke rg|rg]; cbn in *; try contradiction. apply IHk; auto.
      + apply has_origin_app_r. apply IHv; auto.
    - cbn [covered] in Hc. rewrite any_template. apply andb_true_iff in Hc as [Hl Hf]. destruct lit; [discriminate|].
      cbn [leaves] in Hw. apply in_flat_map in Hw as (x & Hx & Hin). rewrite forallb_forall in Hf.
      rewrite Forall_forall in IH. eapply has_origin_flat_map; [exact Hx|]. apply IH; auto.
    - cbn [covered] in Hc. rewrite any_wrap. apply IH; auto.
    - cbn [covered] in Hc. rewrite any_binary. apply andb_true_iff in Hc as [Hc H2]. apply andb_true_iff in Hc as [Hcv H1].
      rewrite Hcv. cbn [leaves] in Hw. apply in_app_iff in Hw as [Hw|Hw];
        [apply has_origin_app_l; apply IHl|apply has_origin_app_r; apply IHr]; auto.
    - cbn [covered] in Hc. rewrite any_unary. apply andb_true_iff in Hc as [Hcv H1]. rewrite Hcv. apply IH; auto.
    - cbn [covered] in Hc. rewrite any_parens. apply IH; auto.
    - cbn [covered] in Hc. rewrite any_cond. apply andb_true_iff in Hc as [Hc H3]. apply andb_true_iff in Hc as [H1 H2].
      cbn [leaves] in Hw. apply in_app_iff in Hw as [Hw|Hw]; [apply has_origin_app_l; apply IHc; auto|].
      apply has_origin_app_r. apply in_app_iff in Hw as [Hw|Hw];
        [apply has_origin_app_l; apply IHa|apply has_origin_app_r; apply IHb]; auto.
    - discriminate.
    - rewrite covered_call in Hc. rewrite any_call. destruct (alookup name funcs) as [[params varp]|]; [|discriminate].
      cbn [leaves] in Hw.
      assert (G : forall l ps vp, Forall (fun e => forall t tr, covered t e = true -> In tr (leaves e) -> collectable tr -> has_origin (any t e) tr) l ->
                  args_cov ps vp l = true -> In tr (flat_map leaves l) -> has_origin (zip_args ps vp l) tr).
      { induction l as [|x r IHl]; intros ps vp HF Hcv Hin; [contradiction|]. inversion HF as [|? ? Hx Hr]; subst.
        cbn [args_cov] in Hcv. cbn [zip_args]. cbn [flat_map] in Hin.
        destruct ps as [|p ps']; [destruct vp as [vt|]; [|discriminate]|];
          apply andb_true_iff in Hcv as [H1 H2]; apply in_app_iff in Hin as [Hin|Hin];
          try (apply has_origin_app_l; apply Hx; auto; fail); apply has_origin_app_r; apply IHl; auto. }
      destruct params, varp; try discriminate; apply G; auto.
    - rewrite any_other. cbn [leaves] in Hw. unfold fallback.
      eapply has_origin_flat_map; [exact Hw|]. now apply trav_origin_complete.
  Qed.
End Proofs.

(* ---------- non-vacuity *)
Definition ex_r (a b : Z) : range :=
  {| r_file := "main.tf"; r_start := {| p_line := 1; p_col := a + 1; p_byte := a |}; r_end := {| p_line := 1; p_col := b + 1; p_byte := b |} |}.
Definition ex_t1 := Trav (ex_r 0 5) false (Some [SRoot "var"; SAttr "a"]).
Definition ex_t2 := Trav (ex_r 20 27) false (Some [SRoot "local"; SAttr "x"]).
Definition ex_t3 := Trav (ex_r 40 46) true (Some [SRoot "self"; SAttr "y"]).
(* var.a > 1 ? "p-${local.x}" : f1(self.y) *)
Definition ex_expr : oexpr :=
  XCond (XBinary TBool TNum TNum (XTrav ex_t1) (XOther []))
        (XTemplate false [XOther []; XTrav ex_t2])
        (XCall "f1" [XTrav ex_t3]).
Definition ex_funcs : fsigs := [("f1"%string, ([TStr], None))].

Example ex_covered :
  covered prim_conv ex_funcs TStr ex_expr = true /\ leaves ex_expr = [ex_t1; ex_t2; ex_t3] /\
  map o_range (any_origins prim_conv true ex_funcs TStr ex_expr) = [ex_r 0 5; ex_r 20 27; ex_r 40 46] /\
  map o_range (any_origins prim_conv false ex_funcs TStr ex_expr) = [ex_r 0 5; ex_r 20 27].
Proof. repeat split; vm_compute; reflexivity. Qed.
