From Coq Require Import String List ZArith Bool Lia Permutation Sorted.
From HV Require Import Base.Sexp Base.Str Base.Pos Base.SortSpec Base.Lex Model.Addr Model.Schema Model.Ref.
Import ListNotations.

(* ---------- C03: Targets.Less is a strict total order on sort keys ---------- *)
Definition rkey (r : range) : string * (Z * Z) := (r_file r, (p_byte (r_start r), p_byte (r_end r))).

Definition tkey (t : target) :=
  (addr_string (t_local t), (addr_string (t_addr t), (option_map rkey (t_rng t),
    (t_scope t, (type_name (t_type t), (t_name t, option_map rkey (t_def t))))))).

Definition rkey_cmp := pair_cmp String.compare (pair_cmp Z.compare Z.compare).
Definition key_cmp :=
  pair_cmp String.compare (pair_cmp String.compare (pair_cmp (opt_cmp rkey_cmp)
    (pair_cmp String.compare (pair_cmp String.compare (pair_cmp String.compare (opt_cmp rkey_cmp)))))).

Lemma proper_key : proper key_cmp.
Proof.
  unfold key_cmp, rkey_cmp.
  repeat (apply proper_pair || apply proper_opt || apply proper_string || apply proper_Z).
Qed.

Lemma orange_cmp_key a b : orange_cmp a b = opt_cmp rkey_cmp (option_map rkey a) (option_map rkey b).
Proof. destruct a, b; reflexivity. Qed.

Lemma target_cmp_key a b : target_cmp a b = key_cmp (tkey a) (tkey b).
Proof. unfold target_cmp. rewrite !orange_cmp_key. reflexivity. Qed.

Definition key_ltb := ltb_of key_cmp.

Lemma targets_less_key a b : targets_less a b = key_ltb (tkey a) (tkey b).
Proof. unfold targets_less, key_ltb, ltb_of. now rewrite target_cmp_key. Qed.

Lemma targets_less_asym a b : targets_less a b = true -> targets_less b a = false.
Proof. rewrite !targets_less_key. apply ltb_of_asym, proper_key. Qed.

Lemma targets_less_trans a b c : targets_less a b = true -> targets_less b c = true -> targets_less a c = true.
Proof. rewrite !targets_less_key. apply ltb_of_trans, proper_key. Qed.

Lemma targets_less_total a b : tkey a = tkey b \/ targets_less a b = true \/ targets_less b a = true.
Proof. rewrite !targets_less_key. apply ltb_of_total, proper_key. Qed.

Lemma sorted_map_keys l :
  StronglySorted (le targets_less) l -> StronglySorted (le key_ltb) (map tkey l).
Proof.
  induction 1 as [|x r Hs IH Hall]; cbn [map]; constructor; [exact IH|].
  rewrite Forall_forall in *. intros k Hk. apply in_map_iff in Hk. destruct Hk as (y & <- & Hy).
  unfold le. rewrite <- targets_less_key. now apply Hall.
Qed.

(* whichever (unstable) sort Go runs and whatever order the targets were collected in, the
   sequence of sort keys of the result is the same: the order of any two targets that differ in
   address, local address, position, scope, type, name or definition position is determined *)
Lemma sort_keys_unique l l' l1 l2 :
  Permutation l l' -> is_sort targets_less l l1 -> is_sort targets_less l' l2 -> map tkey l1 = map tkey l2.
Proof.
  intros P [P1 S1] [P2 S2].
  apply (sorted_unique key_ltb).
  - intros a b _ _. apply ltb_of_total, proper_key.
  - now apply sorted_map_keys.
  - now apply sorted_map_keys.
  - apply Permutation_map. eapply perm_trans; [apply Permutation_sym, P1|]. eapply perm_trans; [exact P|exact P2].
Qed.

(* the comparator before the fix commit is not asymmetric *)
Lemma targets_less_prefix_refuted :
  exists a b, targets_less_prefix a b = true /\ targets_less_prefix b a = true.
Proof.
  exists (Target [SRoot "z"] [SRoot "a"] None "" None None TNil "" []),
         (Target [SRoot "y"] [SRoot "b"] None "" None None TNil "" []).
  vm_compute. auto.
Qed.

(* ---------- C11 ---------- *)
(* origins that point into another path resolve against that path's declarations; local origins
   against their own path; direct origins are passed through *)
Lemma resolve_origin_path conv w own o rt :
  In rt (resolve_origin conv w own o) ->
  rt_origin rt = o_range o /\
  match o with
  | OLocal _ _ _ => rt_path rt = pc_path own
  | OPath _ _ tp _ => rt_path rt = tp
  | ODirect _ tp tr => rt_path rt = tp /\ rt_range rt = tr
  end.
Proof.
  destruct o as [a r cs|r a tp cs|r tp tr]; cbn [resolve_origin o_range].
  - intros H. apply in_flat_map in H. destruct H as (t & _ & H).
    destruct (t_rng t); [|contradiction]. destruct H as [<-|[]]. auto.
  - destruct (find_path w tp); [|contradiction].
    intros H. apply in_flat_map in H. destruct H as (t & _ & H).
    destruct (t_rng t); [|contradiction]. destruct H as [<-|[]]. auto.
  - intros [<-|[]]. auto.
Qed.

(* every declaration go-to-definition reports really matches the origin (same relation as
   find-references uses) and lives in the path context the origin points to *)
Lemma resolve_origin_sound conv w own o rt :
  In rt (resolve_origin conv w own o) ->
  match o with
  | OLocal a r cs => exists t, In t (targets_match conv (pc_targets own) a cs r) /\ t_rng t = Some (rt_range rt) /\ t_def t = rt_def rt
  | OPath r a tp cs => exists c t, find_path w tp = Some c /\ In t (targets_match conv (pc_targets c) a cs r) /\
                                   t_rng t = Some (rt_range rt) /\ t_def t = rt_def rt
  | ODirect _ _ _ => True
  end.
Proof.
  destruct o as [a r cs|r a tp cs|r tp tr]; cbn [resolve_origin]; [| |trivial].
  - intros H. apply in_flat_map in H. destruct H as (t & Ht & H).
    destruct (t_rng t) eqn:E; [|contradiction]. destruct H as [<-|[]]. exists t. auto.
  - destruct (find_path w tp) as [c|] eqn:F; [|contradiction].
    intros H. apply in_flat_map in H. destruct H as (t & Ht & H).
    destruct (t_rng t) eqn:E; [|contradiction]. destruct H as [<-|[]]. exists c, t. auto.
Qed.

(* block-local names do not leak: a target that is only visible from a range matches an origin
   outside that range through its absolute address only *)
Lemma local_names_do_not_leak conv t a cs r fr :
  target_matches conv t a cs r = true -> t_from t = Some fr -> range_overlaps fr r = false ->
  exists a', addr_equals (t_addr t) a' = true.
Proof.
  unfold target_matches. intros H Hf Ho. rewrite Hf, Ho in H.
  destruct (cons_loop conv t cs _) as [m tr].
  rewrite andb_false_r in H. cbn [orb] in H. apply andb_true_iff in H. destruct H as [H _].
  eexists. exact H.
Qed.

(* ---------- C08: reference candidates ---------- *)
Section WalkProofs.
  Variable conv : ty -> ty -> bool.
  Variable self_active : bool.
  Variable ref_scope : string.
  Variable ref_type : ty.
  Variable prefix : string.
  Variable outer_body origin_rng : range.

  Notation ltm := (local_target_matches conv self_active ref_scope ref_type prefix origin_rng).
  Notation atm := (abs_target_matches conv ref_scope ref_type prefix outer_body).

  (* every target the walk offers is offered through its local or through its absolute address *)
  Lemma match_walk_sound fuel : forall ts t,
    In t (match_walk conv self_active ref_scope ref_type prefix outer_body origin_rng fuel ts) ->
    exists cm, ltm cm t = true \/ atm cm t = true.
  Proof.
    induction fuel as [|f IH]; intros ts t H; cbn [match_walk] in H; [contradiction|].
    apply in_flat_map in H. destruct H as (x & _ & H).
    destruct (ltm _ x || atm _ x) eqn:E.
    - destruct H as [<-|[]]. eexists. apply orb_true_iff in E. exact E.
    - eapply IH; eauto.
  Qed.

  (* offered through the local address: it starts with the typed text, self.* only where enabled,
     and the cursor lies in the range the name is visible from *)
  Lemma local_match_implies cm t :
    ltm cm t = true ->
    String.prefix prefix (addr_string (t_local t)) = true /\
    (first_is_self (t_local t) = true -> self_active = true) /\
    (forall fr, t_from t = Some fr -> range_overlaps fr origin_rng = true).
  Proof.
    unfold local_target_matches. destruct (t_local t) as [|s0 rest] eqn:EL; [discriminate|].
    destruct (String.prefix prefix (addr_string (s0 :: rest))) eqn:EP; cbn [negb]; [|discriminate].
    destruct (negb self_active && first_is_self (s0 :: rest)) eqn:ES; [discriminate|].
    destruct (match t_rng t with Some r => _ | None => false end); [discriminate|].
    destruct (t_from t) as [fr|] eqn:EF.
    - destruct (range_overlaps fr origin_rng) eqn:EO; cbn [negb]; [|discriminate].
      intros _. split; [reflexivity|]. split.
      + intros Hs. rewrite Hs, andb_true_r in ES. now destruct self_active.
      + intros fr' Hfr. inversion Hfr; subst. exact EO.
    - intros _. split; [reflexivity|]. split.
      + intros Hs. rewrite Hs, andb_true_r in ES. now destruct self_active.
      + intros fr' Hfr. discriminate.
  Qed.

  (* offered through the absolute address: it starts with the typed text and is not a field of
     the block the cursor is in *)
  Lemma abs_match_implies cm t :
    atm cm t = true ->
    String.prefix prefix (addr_string (t_addr t)) = true /\ target_in_range t outer_body = false /\
    (matches_constraint conv t ref_scope ref_type = true \/ cm = true).
  Proof.
    unfold abs_target_matches. destruct (t_addr t) as [|s0 rest]; [discriminate|].
    destruct (String.prefix prefix (addr_string (s0 :: rest))); cbn [negb]; [|discriminate].
    destruct (target_in_range t outer_body); [discriminate|].
    intros H. apply orb_true_iff in H. auto.
  Qed.
End WalkProofs.
