(* C18 for the outline: the symbols of the translated file are the translated symbols. *)
From Coq Require Import String List ZArith Bool Lia Permutation.
From HV Require Import Base.Sexp Base.Pos Base.SortSpec Model.Addr Model.DepKeys Model.Schema Model.Ast Model.Merge Model.Validate
                       Model.BodyQueries Model.Shift Proofs.ShiftProofs Proofs.BodyQueriesProofs.
Import ListNotations.
Open Scope list_scope.

(* sorting commutes with a map under which the comparator is invariant on the elements at hand *)
Section MapSortOn.
  Context {A B : Type} (ltbA : A -> A -> bool) (ltbB : B -> B -> bool) (g : A -> B) (P : A -> Prop).
  Hypothesis factor : forall a b, P a -> P b -> ltbA a b = ltbB (g a) (g b).

  Lemma insert_front_P x l : P x -> Forall P l -> Forall P (insert_front ltbA x l).
  Proof.
    intros Hx Hl. induction Hl as [|y r Hy Hr IH]; cbn [insert_front]; [repeat constructor; exact Hx|].
    destruct (ltbA y x); repeat constructor; auto.
  Qed.

  Lemma stable_sort_P l : Forall P l -> Forall P (stable_sort ltbA l).
  Proof. induction 1 as [|x r Hx Hr IH]; cbn [stable_sort]; [constructor|]. now apply insert_front_P. Qed.

  Lemma map_insert_front_on x l : P x -> Forall P l -> map g (insert_front ltbA x l) = insert_front ltbB (g x) (map g l).
  Proof.
    intros Hx Hl. induction Hl as [|y r Hy Hr IH]; cbn [insert_front map]; [reflexivity|].
    rewrite (factor y x Hy Hx). destruct (ltbB (g y) (g x)); cbn [map]; [now rewrite IH|reflexivity].
  Qed.

  Lemma map_stable_sort_on l : Forall P l -> map g (stable_sort ltbA l) = stable_sort ltbB (map g l).
  Proof.
    induction 1 as [|x r Hx Hr IH]; cbn [stable_sort map]; [reflexivity|].
    rewrite map_insert_front_on; [now rewrite IH|exact Hx|now apply stable_sort_P].
  Qed.
End MapSortOn.

Section P.
  Variable file : string.
  Variable at_ dl db : Z.
  Hypothesis db_nonneg : (0 <= db)%Z.
  Notation sp := (shift_pos at_ dl db).
  Notation sr := (shift_range file at_ dl db).
  Notation sa := (shift_attr file at_ dl db).
  Notation se := (shift_expr file at_ dl db).
  Notation sb := (shift_body file at_ dl db).
  Notation sk := (shift_block file at_ dl db).

  Fixpoint shift_symbol (s : symbol) : symbol :=
    match s with
    | Symbol k n e r nested => Symbol k n e (sr r) (map shift_symbol nested)
    end.

  (* all positions of the file move monotonically *)
  Lemma shift_byte_lt p q : (p_byte p < p_byte q)%Z <-> (p_byte (sp p) < p_byte (sp q))%Z.
  Proof.
    unfold shift_pos. destruct (Z.leb_spec at_ (p_byte p)), (Z.leb_spec at_ (p_byte q)); cbn [p_byte]; lia.
  Qed.

  Definition in_file (s : symbol) : Prop := r_file (sym_rng s) = file.

  Lemma sym_ltb_shift a b : in_file a -> in_file b -> sym_ltb a b = sym_ltb (shift_symbol a) (shift_symbol b).
  Proof.
    unfold in_file, sym_ltb. destruct a as [k1 n1 e1 r1 l1], b as [k2 n2 e2 r2 l2]. cbn [sym_rng shift_symbol].
    intros H1 H2. unfold shift_range. rewrite H1, H2, String.eqb_refl. cbn [r_start].
    destruct (Z.ltb_spec (p_byte (r_start r1)) (p_byte (r_start r2))) as [H|H];
    destruct (Z.ltb_spec (p_byte (sp (r_start r1))) (p_byte (sp (r_start r2)))) as [H'|H']; try reflexivity; exfalso.
    - apply shift_byte_lt in H. lia.
    - apply shift_byte_lt in H'. lia.
  Qed.

  Lemma expr_kind_shift e : expr_kind (se e) = expr_kind e.
  Proof. destruct e; reflexivity. Qed.

  Lemma expr_range_shift e : expr_range (se e) = sr (expr_range e).
  Proof. destruct e; reflexivity. Qed.

  Lemma range_between_shift a b : r_file a = r_file b -> range_between (sr a) (sr b) = sr (range_between a b).
  Proof.
    intros E. unfold shift_range, range_between. cbn [r_file]. rewrite <- E.
    destruct (String.eqb (r_file a) file); reflexivity.
  Qed.

  (* object items: key and value in the same file *)
  Fixpoint one_file_expr (e : expr) : Prop :=
    match e with
    | ETuple _ es => (fix go (l : list expr) : Prop := match l with [] => True | x :: t => one_file_expr x /\ go t end) es
    | EObject _ its =>
        (fix go (l : list obj_item) : Prop :=
           match l with [] => True | ObjItem kr _ v :: t => r_file kr = r_file (expr_range v) /\ one_file_expr v /\ go t end) its
    | _ => True
    end.

  Lemma expr_symbols_shift : forall e, one_file_expr e -> expr_symbols (se e) = map shift_symbol (expr_symbols e).
  Proof.
    fix IH 1. intros e. destruct e as [r a|r t|r s m|r es|r its|r k]; try (intros _; reflexivity).
    - cbn [one_file_expr shift_expr expr_symbols]. generalize 0%nat.
      induction es as [|x t IHt]; intros i H; [reflexivity|]. destruct H as (Hx & Ht).
      cbn [map shift_symbol]. rewrite <- (IH x Hx), <- (IHt (S i) Ht), expr_kind_shift, expr_range_shift. reflexivity.
    - cbn [one_file_expr shift_expr expr_symbols].
      induction its as [|[kr [key|] v] t IHt]; intros H; [reflexivity| |]; destruct H as (Hf & Hv & Ht).
      + cbn [map shift_symbol]. rewrite <- (IH v Hv), <- (IHt Ht), expr_kind_shift, expr_range_shift, range_between_shift; [reflexivity|exact Hf].
      + apply IHt. exact Ht.
  Qed.

  (* everything the outline shows of this body lies in the shifted file *)
  Fixpoint body_in_file (b : body) : Prop :=
    match b with
    | Body attrs blocks _ _ =>
        Forall (fun a => r_file (a_rng a) = file /\ one_file_expr (a_expr a)) attrs /\
        (fix go (l : list block) : Prop :=
           match l with [] => True | k :: t => r_file (k_rng k) = file /\ body_in_file (k_body k) /\ go t end) blocks
    end.

  Theorem symbols_body_equivariant b0 : forall bs,
    body_in_file b0 -> symbols_body bs (sb b0) = map shift_symbol (symbols_body bs b0).
  Proof.
    apply (body_ind'
      (fun b => forall bs, body_in_file b -> symbols_body bs (sb b) = map shift_symbol (symbols_body bs b))
      (fun k => forall bs, r_file (k_rng k) = file /\ body_in_file (k_body k) ->
                           block_symbol symbols_body bs (sk k) = shift_symbol (block_symbol symbols_body bs k))).
    - intros attrs blocks r e IH bs [Ha Hb]. rewrite shift_body_eq, !symbols_body_eq. unfold body_items. cbn [b_attrs b_blocks].
      rewrite (map_stable_sort_on sym_ltb sym_ltb shift_symbol in_file sym_ltb_shift).
      + f_equal. rewrite map_app. f_equal.
        * rewrite !map_map. apply map_ext_in. intros a Hin. rewrite Forall_forall in Ha. destruct (Ha a Hin) as [_ He].
          cbn [shift_attr a_name a_expr a_rng shift_symbol]. now rewrite expr_kind_shift, expr_symbols_shift.
        * revert Hb. induction IH as [|k rest Hk _ IHr]; intros Hb; [reflexivity|]. destruct Hb as (Hf & Hw & Ht).
          cbn [map blocks_symbols]. rewrite (Hk bs (conj Hf Hw)), (IHr Ht). reflexivity.
      + apply Forall_app; split.
        * apply Forall_forall. intros s Hs. apply in_map_iff in Hs as (a & <- & Hin). rewrite Forall_forall in Ha.
          destruct (Ha a Hin) as [Hf _]. exact Hf.
        * revert Hb. clear IH. induction blocks as [|k rest IHr]; intros Hb; [constructor|]. destruct Hb as (Hf & _ & Ht).
          cbn [blocks_symbols]. constructor; [exact Hf|apply IHr; exact Ht].
    - intros t ls lrs tr o c r d kb IH bs [Hf Hw]. cbn [k_rng k_body] in *. unfold block_symbol.
      cbn [shift_block k_type k_labels k_rng shift_symbol].
      rewrite (IH _ Hw). f_equal.
      change (Block t ls (map sr lrs) (sr tr) (sr o) (sr c) (sr r) (sr d) (sb kb)) with (sk (Block t ls lrs tr o c r d kb)).
      destruct bs as [s|]; [|reflexivity]. cbn [k_type]. destruct (alookup t (bs_blocks s)); [|reflexivity].
      now rewrite merge_shift.
  Qed.
End P.
