From Coq Require Import String Ascii List ZArith Bool Lia.
From HV Require Import Base.Sexp Base.Str Model.Schema Model.Merge Model.Snippet.
Import ListNotations.

(* the integers a, a+1, ..., a+n-1 *)
Fixpoint zseq (a : Z) (n : nat) : list Z := match n with O => [] | S k => a :: zseq (a + 1) k end.

Lemma zseq_app a n m : (zseq a n ++ zseq (a + Z.of_nat n) m)%list = zseq a (n + m).
Proof.
  revert a; induction n as [|n IH]; intros a; cbn [zseq app plus].
  - now rewrite Z.add_0_r.
  - f_equal. rewrite <- IH. f_equal. f_equal. lia.
Qed.

Lemma stops_app l1 l2 : stops (l1 ++ l2) = (stops l1 ++ stops l2)%list.
Proof. induction l1 as [|x r IH]; cbn; [reflexivity|]. destruct x; cbn; now rewrite IH. Qed.

Lemma stops_concat_sep l : stops (concat_sep l) = concat (map stops l).
Proof.
  induction l as [|x r IH]; [reflexivity|]. destruct r as [|y r'].
  - cbn. now rewrite app_nil_r.
  - change (concat_sep (x :: y :: r')) with (x ++ SnText ", " :: concat_sep (y :: r'))%list.
    rewrite stops_app. cbn [stops map concat]. now rewrite IH.
Qed.

Lemma stops_concat_comma l : stops (concat_comma l) = concat (map stops l).
Proof.
  induction l as [|x r IH]; [reflexivity|]. destruct r as [|y r'].
  - cbn. now rewrite app_nil_r.
  - change (concat_comma (x :: y :: r')) with (x ++ SnText ", " :: concat_comma (y :: r'))%list.
    rewrite stops_app. cbn [stops map concat]. now rewrite IH.
Qed.

(* the invariant: either the data is "empty" (the caller falls back), or the snippet's tab stops
   are exactly next, next+1, ... and the counter handed back continues the sequence *)
Definition good (next : Z) (d : cdata) : Prop :=
  cd_empty d = true \/ exists n, stops (cd_snip d) = zseq next n /\ cd_next d = (next + Z.of_nat n)%Z.

Lemma good_bracket next t : good next (bracket_stop next t).
Proof. right. exists 1%nat. cbn. split; [reflexivity|lia]. Qed.

Lemma good_brace next lvl t : good next (brace_stop next lvl t).
Proof. right. exists 1%nat. cbn. split; [reflexivity|lia]. Qed.

Lemma good_empty next new snip t nx : new = ""%string -> good next {| cd_new := new; cd_snip := snip; cd_trigger := t; cd_next := nx |}.
Proof. intros ->. left. reflexivity. Qed.

Section Loops.
  Variable rec : constraint -> Z -> nat -> option cdata.
  Hypothesis Hrec : forall c next lvl d, rec c next lvl = Some d -> good next d.

  Lemma tuple_go_good lvl next0 : forall l last news snips k d,
    concat (map stops (rev snips)) = zseq next0 k -> last = (next0 + Z.of_nat k)%Z ->
    tuple_go rec lvl next0 l last news snips = Some d -> good next0 d.
  Proof.
    induction l as [|e r IH]; intros last news snips k d Hs Hl; cbn [tuple_go].
    - intros H; inversion H; subst. right. exists k. cbn [cd_snip cd_next].
      split; [|reflexivity]. cbn [stops]. rewrite stops_app, stops_concat_sep, Hs. cbn. now rewrite app_nil_r.
    - destruct (rec e last lvl) as [de|] eqn:E; [|discriminate].
      destruct (cd_empty de) eqn:Ee.
      + intros H; inversion H. apply good_bracket.
      + destruct (Hrec _ _ _ _ E) as [He|(n & Hn & Hx)]; [congruence|].
        apply (IH _ _ _ (k + n)%nat).
        * cbn [rev]. rewrite map_app, concat_app. cbn [map concat]. rewrite app_nil_r, Hs, Hn, Hl. apply zseq_app.
        * rewrite Hx, Hl. lia.
  Qed.

  Lemma seq_go_good lvl next0 : forall l last news snips k d,
    concat (map stops (rev snips)) = zseq next0 k -> last = (next0 + Z.of_nat k)%Z ->
    seq_go rec lvl l last news snips = Some d -> good next0 d.
  Proof.
    induction l as [|e r IH]; intros last news snips k d Hs Hl; cbn [seq_go].
    - intros H; inversion H; subst. right. exists k. cbn [cd_snip cd_next].
      split; [|reflexivity]. cbn [stops]. rewrite stops_app, stops_concat_comma, Hs. cbn. now rewrite app_nil_r.
    - destruct (rec (CLitValue e TNil false) last lvl) as [de|] eqn:E; [|discriminate].
      destruct (cd_empty de) eqn:Ee.
      + intros H; inversion H. left. reflexivity.
      + destruct (Hrec _ _ _ _ E) as [He|(n & Hn & Hx)]; [congruence|].
        apply (IH _ _ _ (k + n)%nat).
        * cbn [rev]. rewrite map_app, concat_app. cbn [map concat]. rewrite app_nil_r, Hs, Hn, Hl. apply zseq_app.
        * rewrite Hx, Hl. lia.
  Qed.

  Lemma map_go_good lvl next0 : forall l last news snip k d,
    stops snip = zseq next0 k -> last = (next0 + Z.of_nat k)%Z ->
    map_go rec lvl l last news snip = Some d -> good next0 d.
  Proof.
    induction l as [|e r IH]; intros last news snip k d Hs Hl; cbn [map_go].
    - intros H; inversion H; subst. right. exists k. cbn [cd_snip cd_next]. split; [|reflexivity].
      cbn [stops]. rewrite stops_app, Hs. cbn. now rewrite app_nil_r.
    - destruct e as [a|st|[|[a|kk|l0] [|v [|]]]]; try discriminate.
      destruct (rec (CLitValue v TNil false) last (S lvl)) as [de|] eqn:E; [|discriminate].
      destruct (cd_empty de) eqn:Ee.
      + intros H; inversion H. left. reflexivity.
      + destruct (Hrec _ _ _ _ E) as [He|(n & Hn & Hx)]; [congruence|].
        apply (IH _ _ _ (k + n)%nat).
        * rewrite stops_app. cbn [stops]. rewrite stops_app, Hs, Hn, Hl. cbn [stops]. rewrite app_nil_r. apply zseq_app.
        * rewrite Hx, Hl. lia.
  Qed.

  Lemma object_go_good lvl next0 eo : good next0 eo -> forall l np any_req news snip k d,
    stops snip = zseq next0 k -> np = (next0 + Z.of_nat k)%Z ->
    object_go rec lvl eo l np any_req news snip = Some d -> good next0 d.
  Proof.
    intros Heo. induction l as [|[name a] r IH]; intros np any_req news snip k d Hs Hl; cbn [object_go].
    - destruct any_req; intros H; inversion H; subst; [|exact Heo].
      right. exists k. cbn [cd_snip cd_next]. split; [|reflexivity].
      cbn [stops]. rewrite stops_app, Hs. cbn. now rewrite app_nil_r.
    - destruct (rec (as_cons a) np (S lvl)) as [de|] eqn:E; [|discriminate].
      destruct (cd_empty de) eqn:Ee; [intros H; inversion H; subst; exact Heo|].
      destruct (af_required (as_flags a)).
      + destruct (Hrec _ _ _ _ E) as [He|(n & Hn & Hx)]; [congruence|].
        apply (IH _ _ _ _ (k + n)%nat).
        * rewrite stops_app. cbn [stops]. rewrite stops_app, Hs, Hn, Hl. cbn [stops]. rewrite app_nil_r. apply zseq_app.
        * rewrite Hx, Hl. lia.
      + apply (IH _ _ _ _ k); assumption.
  Qed.
End Loops.

(* C06: the snippet of every constraint uses consecutive tab-stop numbers starting at the
   placeholder it was given, each once, and reports the next free number *)
Theorem ecd_numbering prefill fuel : forall c next lvl d, ecd prefill fuel c next lvl = Some d -> good next d.
Proof.
  induction fuel as [|f IH]; intros c next lvl d; cbn [ecd]; [discriminate|].
  assert (Helem : forall e dd,
    match e with
    | None => Some (bracket_stop next false)
    | Some ec =>
        match ecd prefill f ec next lvl with
        | None => None
        | Some d0 =>
            if cd_empty d0 then Some (bracket_stop next (cd_trigger d0))
            else Some {| cd_new := ("[ " ++ cd_new d0 ++ " ]")%string;
                         cd_snip := (SnText "[ " :: cd_snip d0) ++ [SnText " ]"];
                         cd_trigger := false; cd_next := cd_next d0 |}
        end
    end = Some dd -> good next dd).
  { intros [ec|] dd; [|intros H; inversion H; apply good_bracket].
    destruct (ecd prefill f ec next lvl) as [d0|] eqn:E; [|discriminate].
    destruct (cd_empty d0) eqn:Ee; intros H; inversion H; [apply good_bracket|].
    destruct (IH _ _ _ _ E) as [He|(n & Hn & Hx)]; [congruence|].
    right. exists n. cbn [cd_snip cd_next]. split; [|exact Hx].
    cbn [app stops]. rewrite stops_app, Hn. cbn. now rewrite app_nil_r. }
  destruct c as [t sk|t sk|v t dp|kw nm|sc t nm ad| |e mn mx|e mn mx|es|e nm ip mn mx|ats isnil nm ip|cs].
  - destruct prefill; [apply IH|]. intros H; inversion H. now apply good_empty.
  - destruct t as [| | | | |e|e|e|ts|ats];
      try (intros H; inversion H; first [now apply good_empty | right; exists 1%nat; cbn; split; [reflexivity|lia]]; fail);
      cbn [expand_lit_type]; apply IH.
  - destruct (lit_prim_text v lvl) as [txt|].
    + intros H; inversion H. right. exists 0%nat. cbn. split; [reflexivity|lia].
    + destruct v as [a|st|l]; try discriminate.
      destruct l as [|[a| |] [|tt [|[| |l] [|]]]]; try discriminate.
      destruct (String.eqb a "seq").
      * apply (seq_go_good (ecd prefill f) IH lvl next l next [] [] 0%nat); [reflexivity|lia].
      * destruct (String.eqb a "kv"); [|discriminate].
        destruct (is_object_type tt).
        -- destruct (negb prefill); [intros H; inversion H; apply good_brace|].
           apply (object_go_good (ecd prefill f) IH lvl next _ (good_brace _ _ _) _ next false ""%string [] 0%nat); [reflexivity|lia].
        -- apply (map_go_good (ecd prefill f) IH lvl next l next ""%string [] 0%nat); [reflexivity|lia].
  - intros H; inversion H. now apply good_empty.
  - intros H; inversion H. now apply good_empty.
  - intros H; inversion H. now apply good_empty.
  - apply Helem.
  - apply Helem.
  - destruct es as [|e0 es']; [intros H; inversion H; apply good_bracket|].
    apply (tuple_go_good (ecd prefill f) IH lvl next (e0 :: es') next [] [] 0%nat); [reflexivity|lia].
  - destruct e as [ec|]; [|intros H; inversion H; apply good_brace].
    destruct (ecd prefill f ec (next + 1) (S lvl)) as [d0|] eqn:E; [|discriminate].
    destruct (cd_empty d0) eqn:Ee; intros H; inversion H; [apply good_brace|].
    destruct (IH _ _ _ _ E) as [He|(n & Hn & Hx)]; [congruence|].
    right. exists (S n). cbn [cd_snip cd_next]. split; [|rewrite Hx; lia].
    cbn [app stops]. rewrite stops_app, Hn. cbn [stops zseq]. now rewrite app_nil_r.
  - destruct (negb prefill); [intros H; inversion H; apply good_brace|].
    apply (object_go_good (ecd prefill f) IH lvl next _ (good_brace _ _ _) ats next false ""%string [] 0%nat); [reflexivity|lia].
  - destruct cs as [|c0 r]; [intros H; inversion H; now apply good_empty|apply IH].
Qed.

(* non-vacuity: a prefilled object with a map and a list field *)
Example ecd_example :
  let c := CObject [("m", AttrSchema required_flags None "" (CMap (Some (CLitType TStr false)) "" false 0 0) [] 0 nil_sexp nil_sexp);
                    ("l", AttrSchema required_flags None "" (CList (Some (CLitType TNum false)) 0 0) [] 0 nil_sexp nil_sexp)] false "" false in
  option_map (fun d => (stops (cd_snip d), cd_next d)) (ecd true 10 c 1 0) = Some ([1; 2; 3]%Z, 4%Z).
Proof. vm_compute. reflexivity. Qed.
