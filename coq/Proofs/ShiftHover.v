(* C18 for hover at body level: the hover of the translated file at the moved cursor is the translated hover. *)
From Coq Require Import String List ZArith Bool Lia.
From HV Require Import Base.Sexp Base.Pos Model.Addr Model.DepKeys Model.Schema Model.Ast Model.Merge Model.Validate
                       Model.BodyQueries Model.Completion Model.Hover Model.Shift Proofs.ShiftProofs.
Import ListNotations.
Open Scope list_scope.

Section P.
  Variable file : string.
  Variable at_ dl db : Z.
  Hypothesis db_nonneg : (0 <= db)%Z.
  Notation sp := (shift_pos at_ dl db).
  Notation sr := (shift_range file at_ dl db).
  Notation sa := (shift_attr file at_ dl db).
  Notation sb := (shift_body file at_ dl db).
  Notation sk := (shift_block file at_ dl db).
  Notation se := (shift_expr file at_ dl db).

  Definition shift_outcome (o : hover_outcome) : hover_outcome :=
    match o with HHover c r => HHover c (sr r) | x => x end.

  (* containment is decided by byte offsets, which the translation moves monotonically *)
  Lemma contains_shift r p : r_file r = file -> contains_pos (sr r) (sp p) = contains_pos r p.
  Proof.
    intro Hf. unfold shift_range. rewrite Hf, String.eqb_refl. unfold contains_pos, contains_offset, shift_pos. cbn [r_start r_end].
    destruct (Z.leb_spec at_ (p_byte (r_start r))), (Z.leb_spec at_ (p_byte (r_end r))), (Z.leb_spec at_ (p_byte p)); cbn [p_byte];
      destruct (Z.leb_spec (p_byte (r_start r)) (p_byte p)), (Z.ltb_spec (p_byte p) (p_byte (r_end r)));
      repeat match goal with |- context [Z.leb ?a ?b] => destruct (Z.leb_spec a b) end;
      repeat match goal with |- context [Z.ltb ?a ?b] => destruct (Z.ltb_spec a b) end; cbn; try reflexivity; exfalso; lia.
  Qed.

  Lemma range_between_file a b : r_file (range_between a b) = r_file a.
  Proof. reflexivity. Qed.

  Lemma range_between_shift' a b : r_file a = file -> r_file b = file -> range_between (sr a) (sr b) = sr (range_between a b).
  Proof.
    intros Ha Hb. unfold shift_range, range_between. cbn [r_file]. rewrite Ha, Hb, String.eqb_refl. reflexivity.
  Qed.

  Lemma expr_range_shift'' e : expr_range (se e) = sr (expr_range e).
  Proof. destruct e; reflexivity. Qed.

  (* every range the body-level hover looks at names the edited file *)
  Definition attr_in_file (a : attr) : Prop :=
    r_file (a_rng a) = file /\ r_file (a_name_rng a) = file /\ r_file (expr_range (a_expr a)) = file.

  Fixpoint hover_in_file (b : body) : Prop :=
    match b with
    | Body attrs blocks r _ =>
        r_file r = file /\ Forall attr_in_file attrs /\
        (fix go (l : list block) : Prop :=
           match l with
           | [] => True
           | k :: t => (r_file (k_rng k) = file /\ r_file (k_type_rng k) = file /\ Forall (fun x => r_file x = file) (k_label_rngs k) /\
                        r_file (k_open_rng k) = file /\ r_file (k_close_rng k) = file /\ hover_in_file (k_body k)) /\ go t
           end) blocks
    end.

  Definition block_in_file (k : block) : Prop :=
    r_file (k_rng k) = file /\ r_file (k_type_rng k) = file /\ Forall (fun x => r_file x = file) (k_label_rngs k) /\
    r_file (k_open_rng k) = file /\ r_file (k_close_rng k) = file /\ hover_in_file (k_body k).

  Lemma k_rng_shift k : k_rng (sk k) = sr (k_rng k). Proof. destruct k; reflexivity. Qed.
  Lemma k_type_rng_shift k : k_type_rng (sk k) = sr (k_type_rng k). Proof. destruct k; reflexivity. Qed.
  Lemma k_label_rngs_shift' k : k_label_rngs (sk k) = map sr (k_label_rngs k). Proof. destruct k; reflexivity. Qed.

  Lemma hover_attrs_shift p bs : forall attrs, Forall attr_in_file attrs ->
    hover_attrs (sp p) (map sa attrs) bs = option_map shift_outcome (hover_attrs p attrs bs).
  Proof.
    induction attrs as [|a rest IH]; intro H; cbn [map hover_attrs]; [reflexivity|].
    inversion H as [|? ? (H1 & H2 & H3) Hr]; subst.
    cbn [shift_attr a_rng a_name a_name_rng a_expr]. rewrite (contains_shift _ _ H1).
    destruct (contains_pos (a_rng a) p); [|apply IH; exact Hr].
    destruct (hover_attr_schema bs (a_name a)); [|reflexivity].
    rewrite (contains_shift _ _ H2). destruct (contains_pos (a_name_rng a) p); [reflexivity|].
    rewrite expr_range_shift'', (contains_shift _ _ H3). destruct (contains_pos (expr_range (a_expr a)) p); [reflexivity|].
    apply IH; exact Hr.
  Qed.

  Lemma hover_label_shift i k s : hover_label i (sk k) s = hover_label i k s.
  Proof.
    unfold hover_label. rewrite (k_labels_shift file at_ dl db), (dependent_body_schema_shift file at_ dl db). reflexivity.
  Qed.

  Lemma hover_labels_shift p k sc : forall rngs i, Forall (fun x => r_file x = file) rngs ->
    hover_labels (sp p) (sk k) sc i (map sr rngs) = option_map shift_outcome (hover_labels p k sc i rngs).
  Proof.
    induction rngs as [|lr rest IH]; intros i H; cbn [map hover_labels]; [reflexivity|].
    inversion H as [|? ? H1 Hr]; subst. rewrite (contains_shift _ _ H1).
    destruct (contains_pos lr p); [|apply IH; exact Hr].
    rewrite (k_labels_shift file at_ dl db), hover_label_shift. destruct (Nat.leb _ i); reflexivity.
  Qed.

  Lemma outside_body_shift p k : block_in_file k -> is_pos_outside_body (sk k) (sp p) = is_pos_outside_body k p.
  Proof.
    intros (_ & Ht & _ & Ho & Hc & _). unfold is_pos_outside_body. destruct k as [t ls lrs tr o c r d kb].
    cbn [shift_block k_open_rng k_close_rng k_type_rng] in *.
    rewrite (contains_shift _ _ Ho), (contains_shift _ _ Hc), (range_between_shift' _ _ Ht Ho), contains_shift; [reflexivity|].
    rewrite range_between_file. exact Ht.
  Qed.

  Theorem hover_body_equivariant p b0 : forall bs,
    hover_in_file b0 -> hover_body (sp p) (sb b0) bs = shift_outcome (hover_body p b0 bs).
  Proof.
    apply (body_ind'
      (fun b => forall bs, hover_in_file b -> hover_body (sp p) (sb b) bs = shift_outcome (hover_body p b bs))
      (fun k => forall bs, hover_in_file (k_body k) -> hover_body (sp p) (sb (k_body k)) bs = shift_outcome (hover_body p (k_body k) bs))).
    - intros attrs blocks r e IH bs (Hr & Ha & Hb). rewrite (shift_body_eq file at_ dl db).
      cbn [hover_body b_attrs b_blocks]. rewrite (hover_attrs_shift p bs attrs Ha).
      destruct (hover_attrs p attrs bs) as [o|]; cbn [option_map]; [reflexivity|].
      match goal with |- match ?X with _ => _ end = shift_outcome (match ?Y with _ => _ end) =>
        assert (HX : X = option_map shift_outcome Y) end.
      { clear Ha Hr. induction IH as [|k rest Hk _ IHr]; cbn [map]; [reflexivity|].
        destruct Hb as (Hkf & Hrest). pose proof Hkf as (H1 & H2 & H3 & H4 & H5 & H6).
        rewrite (k_rng_shift k), (contains_shift _ _ H1).
        destruct (contains_pos (k_rng k) p); [|apply IHr; exact Hrest].
        rewrite (k_type_shift file at_ dl db). destruct (alookup (k_type k) (bs_blocks bs)) as [sc|]; [|reflexivity].
        rewrite (k_type_rng_shift k), (contains_shift _ _ H2).
        destruct (contains_pos (k_type_rng k) p); [reflexivity|].
        rewrite (k_label_rngs_shift' k), (hover_labels_shift p k sc _ 0%nat H3).
        destruct (hover_labels p k sc 0 (k_label_rngs k)) as [o|]; cbn [option_map]; [reflexivity|].
        rewrite (outside_body_shift p k Hkf). destruct (is_pos_outside_body k p); [reflexivity|].
        destruct k as [t ls lrs tr o c r0 d kb]. cbn [shift_block k_body] in *.
        assert (Hbr : r_file (b_rng kb) = file) by (destruct kb; cbn in H6; tauto).
        rewrite (b_rng_shift file at_ dl db), (contains_shift _ _ Hbr).
        destruct (contains_pos (b_rng kb) p); [|apply IHr; exact Hrest].
        change (Block t ls (map sr lrs) (sr tr) (sr o) (sr c) (sr r0) (sr d) (sb kb)) with (sk (Block t ls lrs tr o c r0 d kb)).
        rewrite (merge_shift file at_ dl db). destruct (merge_block_body_schemas sc _) as [m res]. cbn [option_map]. f_equal.
        apply (Hk m). exact H6. }
      rewrite HX. match goal with |- context [option_map shift_outcome ?Y] => destruct Y end; reflexivity.
    - intros t ls lrs tr o c r d kb IH bs H. cbn [k_body] in *. apply IH. exact H.
  Qed.
End P.

(* non-vacuity: a file "a = 1\nblk {\n}\n" meets the hypothesis; three comment lines (42 bytes) inserted in front of the
   block move the hover on the block type with them *)
Section Example.
  Open Scope string_scope.
  Let f := "main.tf".
  Let mk (l1 c1 b1 l2 c2 b2 : Z) : range :=
    {| r_file := f; r_start := {| p_line := l1; p_col := c1; p_byte := b1 |}; r_end := {| p_line := l2; p_col := c2; p_byte := b2 |} |}.
  Let a1 : attr := {| a_name := "a"; a_expr := ELiteral (mk 1 5 4 1 6 5) "number"; a_rng := mk 1 1 0 1 6 5; a_name_rng := mk 1 1 0 1 2 1;
                      a_eq_rng := mk 1 3 2 1 4 3; a_val := EvSkip |}.
  Let k1 : block := Block "blk" [] [] (mk 2 1 6 2 4 9) (mk 2 5 10 2 6 11) (mk 3 1 12 3 2 13) (mk 2 1 6 3 2 13) (mk 2 1 6 2 4 9)
                          (Body [] [] (mk 2 5 10 3 2 13) (mk 3 2 13 3 2 13)).
  Let b1 : body := Body [a1] [k1] (mk 1 1 0 4 1 14) (mk 4 1 14 4 1 14).

  Example hover_in_file_example : hover_in_file f b1.
  Proof. cbn. repeat split; repeat constructor. Qed.
End Example.
