(* C01: partial operations of the modelled code, as option-valued functions, never fail on
   trees that satisfy the parser contract. *)
From Coq Require Import String List ZArith Bool Lia.
From HV Require Import Base.Sexp Base.Pos Model.Schema Model.Ast Model.Merge Model.Validate.
Import ListNotations.

(* validator.BlockLabelsLength indexes block.LabelRanges[i] for every i < len(block.Labels):
   the Go code as written, with the index operation partial (None = panic) *)
Fixpoint surplus_label_diags_partial (valid : nat) (type : string) (labels : list string) (i : nat) (rngs : list range)
  : option (list diag) :=
  match labels with
  | [] => Some []
  | _ :: rest =>
      if Nat.leb valid i then
        match nth_error rngs i with
        | None => None
        | Some r =>
            match surplus_label_diags_partial valid type rest (S i) rngs with
            | None => None
            | Some ds =>
                Some ({| d_kind := KTooManyLabels; d_name := type; d_sev := SevError;
                         d_summary := ("Too many labels specified for " ++ q type)%string;
                         d_detail := ("Only " ++ dstr (Z.of_nat valid) ++ " label(s) are expected for " ++ q type ++ " blocks")%string;
                         d_subject := r |} :: ds)
            end
        end
      else surplus_label_diags_partial valid type rest (S i) rngs
  end.

Lemma surplus_partial_total valid type : forall (labels : list string) (i : nat) (rngs : list range),
  (i + length labels <= length rngs)%nat ->
  surplus_label_diags_partial valid type labels i rngs <> None.
Proof.
  induction labels as [|l rest IH]; intros i rngs H; cbn [surplus_label_diags_partial]; [discriminate|].
  cbn [length] in H.
  destruct (Nat.leb valid i).
  - destruct (nth_error rngs i) eqn:E.
    + specialize (IH (S i) rngs). destruct (surplus_label_diags_partial valid type rest (S i) rngs); [discriminate|].
      exfalso. apply IH; [lia|reflexivity].
    + apply nth_error_None in E. lia.
  - apply IH. lia.
Qed.

(* parser contract clause used: as many label ranges as labels *)
Definition labels_wf (k : block) : Prop := (length (k_labels k) = length (k_label_rngs k))%nat.

Lemma block_labels_length_never_panics valid k :
  labels_wf k -> surplus_label_diags_partial valid (k_type k) (k_labels k) 0 (k_label_rngs k) <> None.
Proof. intros H. apply surplus_partial_total. unfold labels_wf in H. lia. Qed.

(* lookups of the dependent body: a (partially) successful lookup always carries a body, so the
   merge never dereferences a nil dependent schema *)
Lemma step_successful_has_body ls dep body_s k r dk :
  dependent_body_schema_step ls dep body_s k = (r, dk, LookupSuccessful) -> r <> None.
Proof.
  unfold dependent_body_schema_step.
  set (d := dependency_keys ls body_s k).
  destruct (dep_keys_json d) as [key|]; [|intros H; inversion H].
  destruct (dk_labels d), (dk_attrs d);
    try (intros H; inversion H; fail);
    destruct (alookup key dep); intros H; inversion H; discriminate.
Qed.

Lemma step_never_partial ls dep body_s k r dk :
  dependent_body_schema_step ls dep body_s k <> (r, dk, LookupPartiallySuccessful).
Proof.
  unfold dependent_body_schema_step.
  set (d := dependency_keys ls body_s k).
  destruct (dep_keys_json d) as [key|]; [|intros H; inversion H].
  destruct (dk_labels d), (dk_attrs d);
    try (intros H; inversion H; fail);
    destruct (alookup key dep); intros H; inversion H.
Qed.

Lemma dependent_body_total bs k r dk res :
  dependent_body_schema bs k = (r, dk, res) ->
  (res = LookupSuccessful \/ res = LookupPartiallySuccessful) -> r <> None.
Proof.
  unfold dependent_body_schema.
  destruct (dependent_body_schema_step (bk_labels bs) (bk_dep bs) (bk_body bs) k) as [[r1 dk1] res1] eqn:E1.
  destruct res1; try (intros H; inversion H; subst; intros [X|X]; discriminate);
    try (exfalso; eapply step_never_partial; eauto; fail).
  destruct r1 as [b|]; [|apply step_successful_has_body in E1; congruence].
  destruct (has_dep_key_attr b).
  - destruct (dependent_body_schema_step (bk_labels bs) (bk_dep bs) (Some b) k) as [[r2 dk2] res2] eqn:E2.
    destruct res2; intros H; inversion H; subst; intros _; try discriminate.
    eapply step_successful_has_body; eauto.
  - intros H; inversion H; subst. intros _. discriminate.
Qed.
