(* Which range a body-level hover carries (Model/Hover.v): the whole attribute for an attribute name, the label for a label. *)
From Coq Require Import String List ZArith Bool.
From HV Require Import Base.Sexp Base.Str Base.Pos Model.Addr Model.DepKeys Model.Schema Model.Ast Model.Merge Model.Completion Model.Hover.
Import ListNotations.

(* hover data produced by the attribute loop is for an attribute whose NAME is under the cursor, whose name the effective
   schema knows, and its range is that whole attribute *)
Theorem attr_hover_range_is_the_attribute p bs : forall attrs c r,
  hover_attrs p attrs bs = Some (HHover c r) ->
  exists a, In a attrs /\ r = a_rng a /\ contains_pos (a_name_rng a) p = true /\ contains_pos (a_rng a) p = true /\
            hover_attr_schema bs (a_name a) <> None.
Proof.
  induction attrs as [|a rest IH]; intros c r H; cbn [hover_attrs] in H; [discriminate|].
  destruct (contains_pos (a_rng a) p) eqn:E1.
  - destruct (hover_attr_schema bs (a_name a)) eqn:Es; [|discriminate].
    destruct (contains_pos (a_name_rng a) p) eqn:E2.
    + injection H as <- <-. exists a. repeat split; auto; [left; reflexivity | rewrite Es; discriminate].
    + destruct (contains_pos (expr_range (a_expr a)) p); [discriminate|].
      destruct (IH c r H) as (a' & Hin & Hrest). exists a'. split; [right; exact Hin | exact Hrest].
  - destruct (IH c r H) as (a' & Hin & Hrest). exists a'. split; [right; exact Hin | exact Hrest].
Qed.

(* hover data produced by the label loop is for a label under the cursor that the schema declares, its range is that
   label and its content is the label's *)
Theorem label_hover_range_is_the_label p k sc : forall rngs i c r,
  hover_labels p k sc i rngs = Some (HHover c r) ->
  exists j, nth_error rngs j = Some r /\ contains_pos r p = true /\ (i + j < length (bk_labels sc))%nat /\ c = hover_label (i + j) k sc.
Proof.
  induction rngs as [|lr rest IH]; intros i c r H; cbn [hover_labels] in H; [discriminate|].
  destruct (contains_pos lr p) eqn:E.
  - destruct (Nat.leb (length (bk_labels sc)) i) eqn:El; [discriminate|]. injection H as <- <-.
    exists 0%nat. rewrite Nat.add_0_r. apply Nat.leb_gt in El. repeat split; auto.
  - destruct (IH (S i) c r H) as (j & Hn & Hc & Hl & Hh). exists (S j). rewrite Nat.add_succ_r. cbn in *. repeat split; auto.
Qed.
