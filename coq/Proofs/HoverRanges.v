(* Which range a body-level hover carries (Model/Hover.v): the whole attribute for an attribute name, the label for a label. *)
From Coq Require Import String List ZArith Bool.
From HV Require Import Base.Sexp Base.Str Base.Pos Model.Addr Model.DepKeys Model.Schema Model.Ast Model.Merge Model.Completion Model.Hover.
Import ListNotations.

(* hover data produced by the attribute loop is for an attribute whose NAME is under the cursor, whose name the effective
   schema knows, and its range is that whole attribute *)
Theorem attr_hover_range_is_the_attribute p bs : forall attrs c r,
  hover_attrs p attrs bs = Some (HHover c r) ->
  exists a, In a attrs /\ r = a_rng a /\ contains_pos (a_name_rng a) p = true /\ contains_pos (a_rng a) p = true /\
            hover_attr_schema bs (a_name a) <> None.
Proof.
  induction attrs as [|a rest IH]; intros c r H; cbn [hover_attrs] in H; [discriminate|].
  destruct (contains_pos (a_rng a) p) eqn:E1.
  - destruct (hover_attr_schema bs (a_name a)) eqn:Es; [|discriminate].
    destruct (contains_pos (a_name_rng a) p) eqn:E2.
    + injection H as <- <-. exists a. repeat split; auto; [left; reflexivity | rewrite Es; discriminate].
    + destruct (contains_pos (expr_range (a_expr a)) p); [discriminate|].
      destruct (IH c r H) as (a' & Hin & Hrest). exists a'. split; [right; exact Hin | exact Hrest].
  - destruct (IH c r H) as (a' & Hin & Hrest). exists a'. split; [right; exact Hin | exact Hrest].
Qed.

(* hover data produced by the label loop is for a label under the cursor that the schema declares, its range is that
   label and its content is the label's *)
Theorem label_hover_range_is_the_label p k sc : forall rngs i c r,
  hover_labels p k sc i rngs = Some (HHover c r) ->
  exists j, nth_error rngs j = Some r /\ contains_pos r p = true /\ (i + j < length (bk_labels sc))%nat /\ c = hover_label (i + j) k sc.
Proof.
  induction rngs as [|lr rest IH]; intros i c r H; cbn [hover_labels] in H; [discriminate|].
  destruct (contains_pos lr p) eqn:E.
  - destruct (Nat.leb (length (bk_labels sc)) i) eqn:El; [discriminate|]. injection H as <- <-.
    exists 0%nat. rewrite Nat.add_0_r. apply Nat.leb_gt in El. repeat split; auto.
  - destruct (IH (S i) c r H) as (j & Hn & Hc & Hl & Hh). exists (S j). rewrite Nat.add_succ_r. cbn in *. repeat split; auto.
Qed.

(* ---- at any nesting depth: the range of hover data is the extent of an attribute, a block's type keyword or one of its labels ---- *)
Fixpoint hover_item_ranges (b : body) : list range :=
  match b with
  | Body attrs blocks _ _ =>
      (map a_rng attrs ++
        (fix go (l : list block) : list range :=
           match l with
           | [] => []
           | Block _ _ lrs tr _ _ _ _ kb :: rest => tr :: (lrs ++ hover_item_ranges kb ++ go rest)
           end) blocks)%list
  end.

Definition block_hover_ranges (k : block) : list range :=
  match k with Block _ _ lrs tr _ _ _ _ kb => tr :: (lrs ++ hover_item_ranges kb)%list end.

Lemma hover_item_ranges_eq attrs blocks r e :
  hover_item_ranges (Body attrs blocks r e) = (map a_rng attrs ++ flat_map block_hover_ranges blocks)%list.
Proof.
  cbn [hover_item_ranges]. f_equal.
  induction blocks as [|k rest IH]; [reflexivity|].
  destruct k as [t ls lrs tr o c rg d kb]. cbn [flat_map block_hover_ranges]. rewrite IH.
  cbn [app]. f_equal. now rewrite <- !app_assoc.
Qed.

Theorem hover_range_is_an_item p b0 : forall bs c r,
  hover_body p b0 bs = HHover c r -> In r (hover_item_ranges b0) /\ contains_pos r p = true.
Proof.
  apply (body_ind'
    (fun b => forall bs c r, hover_body p b bs = HHover c r -> In r (hover_item_ranges b) /\ contains_pos r p = true)
    (fun k => forall bs c r, hover_body p (k_body k) bs = HHover c r -> In r (hover_item_ranges (k_body k)) /\ contains_pos r p = true)).
  - intros attrs blocks rg e IH bs c r H. rewrite hover_item_ranges_eq. cbn [hover_body b_attrs b_blocks] in H.
    destruct (hover_attrs p attrs bs) as [o|] eqn:Ea.
    + subst o. apply attr_hover_range_is_the_attribute in Ea as (a & Hin & -> & _ & Hc & _).
      split; [apply in_or_app; left; apply in_map; exact Hin | exact Hc].
    + match type of H with match ?X with _ => _ end = _ => destruct X as [o|] eqn:Eb; [subst o|discriminate] end.
      enough (In r (flat_map block_hover_ranges blocks) /\ contains_pos r p = true) as (H1 & H2)
        by (split; [apply in_or_app; right; exact H1 | exact H2]).
      clear Ea. induction IH as [|k rest Hk _ IHr]; [discriminate|]. cbn [flat_map].
      destruct (contains_pos (k_rng k) p); [|destruct (IHr Eb) as (H1 & H2); split; [apply in_or_app; right; exact H1 | exact H2]].
      destruct (alookup (k_type k) (bs_blocks bs)) as [sc|]; [|discriminate].
      destruct (contains_pos (k_type_rng k) p) eqn:Et.
      { injection Eb as <- <-. split; [|exact Et]. apply in_or_app; left. destruct k; left; reflexivity. }
      destruct (hover_labels p k sc 0 (k_label_rngs k)) as [o|] eqn:El.
      { injection Eb as ->. apply label_hover_range_is_the_label in El as (j & Hn & Hc & _).
        split; [|exact Hc]. apply in_or_app; left. destruct k as [t ls lrs tr o c0 r0 d kb]. cbn in *.
        right. apply in_or_app; left. eapply nth_error_In; exact Hn. }
      destruct (is_pos_outside_body k p); [discriminate|].
      destruct k as [t ls lrs tr o c0 r0 d kb]. cbn [k_body] in *.
      destruct (contains_pos (b_rng kb) p); [|destruct (IHr Eb) as (H1 & H2); split; [apply in_or_app; right; exact H1 | exact H2]].
      destruct (merge_block_body_schemas sc _) as [m res]. injection Eb as Eb.
      destruct (Hk m c r Eb) as (H1 & H2). split; [|exact H2].
      apply in_or_app; left. cbn [block_hover_ranges]. right. apply in_or_app; right. exact H1.
  - intros t ls lrs tr o c r d kb IH bs c0 r0 H. cbn [k_body] in *. exact (IH bs c0 r0 H).
Qed.
