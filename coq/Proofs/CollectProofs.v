From Coq Require Import String List ZArith Bool Lia Permutation Sorted.
From HV Require Import Base.Sexp Base.Str Base.Pos Base.SortSpec Model.Addr Model.Schema Model.Ref Model.Collect.
Import ListNotations.

(* ---------- C09: the address of a block is built from the declared steps ---------- *)
Definition mk_step (i : nat) (name : string) : step := match i with O => SRoot name | _ => SAttr name end.

(* each kind of schema step contributes exactly the step the property describes *)
Lemma static_step_contributes_its_name labels attr_val i n rest acc :
  resolve_steps labels attr_val i (AStatic n :: rest) acc = resolve_steps labels attr_val (S i) rest (acc ++ [mk_step i n])%list.
Proof. reflexivity. Qed.

Lemma label_step_contributes_the_label labels attr_val i idx l rest acc :
  nth_error labels idx = Some l ->
  resolve_steps labels attr_val i (ALabel idx :: rest) acc = resolve_steps labels attr_val (S i) rest (acc ++ [mk_step i l])%list.
Proof. intros H. cbn [resolve_steps]. now rewrite H. Qed.

Lemma attr_value_step_contributes_the_value labels attr_val i n o v rest acc :
  attr_val n = AVStr v ->
  resolve_steps labels attr_val i (AAttrValue n o :: rest) acc = resolve_steps labels attr_val (S i) rest (acc ++ [mk_step i v])%list.
Proof. intros H. cbn [resolve_steps]. now rewrite H. Qed.

(* the address never has more steps than the schema declares, and extends what was resolved so far *)
Lemma resolve_steps_extends labels attr_val steps : forall i acc a,
  resolve_steps labels attr_val i steps acc = Some a ->
  exists suffix, a = (acc ++ suffix)%list /\ (length suffix <= length steps)%nat.
Proof.
  induction steps as [|s rest IH]; intros i acc a H; cbn [resolve_steps] in H.
  - inversion H. exists []. split; [now rewrite app_nil_r|cbn; lia].
  - assert (Hc : forall name, resolve_steps labels attr_val (S i) rest (acc ++ [mk_step i name])%list = Some a ->
                 exists suffix, a = (acc ++ suffix)%list /\ (length suffix <= length (s :: rest))%nat).
    { intros name H1. destruct (IH _ _ _ H1) as (sf & E & L). exists (mk_step i name :: sf).
      split; [rewrite E, <- app_assoc; reflexivity|cbn; lia]. }
    destruct s as [n|idx|n o|].
    + apply (Hc n). exact H.
    + destruct (nth_error labels idx) as [l|]; [|discriminate]. apply (Hc l). exact H.
    + destruct (attr_val n) as [| |v]; [|discriminate|].
      * destruct o; [|discriminate]. destruct (IH _ _ _ H) as (sf & E & L). exists sf. split; [exact E|cbn; lia].
      * apply (Hc v). exact H.
    + discriminate.
Qed.

(* no address when a label step has no label *)
Lemma missing_label_no_address labels attr_val pre idx rest i acc :
  nth_error labels idx = None ->
  Forall (fun s => match s with AStatic _ => True | _ => False end) pre ->
  resolve_steps labels attr_val i (pre ++ ALabel idx :: rest) acc = None.
Proof.
  intros Hn. revert i acc. induction pre as [|s pre IH]; intros i acc Hp; cbn [app resolve_steps].
  - now rewrite Hn.
  - inversion Hp as [|? ? Hs Hr]; subst. destruct s; try contradiction. apply IH. exact Hr.
Qed.

(* ---------- C10 ---------- *)
(* self.* references yield an origin only where the body enables them *)
Lemma self_gated addr r cs : traversal_to_local_origin addr true r cs false = None.
Proof. reflexivity. Qed.

Lemma non_self_always addr r cs allow a :
  addr = Some a -> traversal_to_local_origin addr false r cs allow = Some (OLocal a r cs).
Proof. intros ->. reflexivity. Qed.

(* merging the origins of one-of alternatives: one origin per (address, range) *)
Definition ref_key (o : origin) : option (list string * pos * pos) :=
  match o_addr o with
  | Some [] => None                         (* empty addresses never compare equal *)
  | Some a => Some (map step_string a, r_start (o_range o), r_end (o_range o))
  | None => None
  end.

Lemma merge_into_length l n r : merge_into l n = Some r -> length r = length l.
Proof.
  revert r; induction l as [|x rest IH]; intros r; cbn [merge_into]; [discriminate|].
  destruct (same_ref x n); [intros H; inversion H; reflexivity|].
  destruct (merge_into rest n) as [m|]; [|discriminate]. intros H; inversion H. cbn. f_equal. now apply IH.
Qed.

Lemma merge_into_ranges l n r : merge_into l n = Some r -> map o_range r = map o_range l.
Proof.
  revert r; induction l as [|x rest IH]; intros r; cbn [merge_into]; [discriminate|].
  destruct (same_ref x n) eqn:E.
  - intros H; inversion H. cbn. f_equal. destruct x; reflexivity.
  - destruct (merge_into rest n) as [m|] eqn:M; [|discriminate]. intros H; inversion H. cbn. f_equal. now apply IH.
Qed.

(* merging never drops a position and adds at most one origin per new origin *)
Lemma append_origins_length news : forall origins,
  (length origins <= length (append_origins origins news) <= length origins + length news)%nat.
Proof.
  induction news as [|n rest IH]; intros origins; cbn [append_origins length]; [lia|].
  destruct (o_addr n).
  - destruct (merge_into origins n) as [m|] eqn:M.
    + specialize (IH m). rewrite (merge_into_length _ _ _ M) in IH. lia.
    + specialize (IH (origins ++ [n])%list). rewrite app_length in IH. cbn in IH. lia.
  - specialize (IH (origins ++ [n])%list). rewrite app_length in IH. cbn in IH. lia.
Qed.

(* a new origin that matches no existing one is appended (a reference written twice yields two
   origins: the ranges differ) *)
Lemma unmatched_origin_is_kept origins n :
  Forall (fun x => same_ref x n = false) origins -> merge_into origins n = None.
Proof.
  induction 1 as [|x rest Hx _ IH]; cbn [merge_into]; [reflexivity|]. now rewrite Hx, IH.
Qed.

Lemma origin_asym x y : origin_ltb x y = true -> origin_ltb y x = false.
Proof.
  unfold origin_ltb. destruct (String.eqb (r_file (o_range x)) (r_file (o_range y))) eqn:E.
  - rewrite String.eqb_sym, E. cbn. rewrite Z.ltb_lt, Z.ltb_ge. lia.
  - rewrite String.eqb_sym, E. cbn. unfold String.ltb. rewrite (String.compare_antisym (r_file (o_range y))).
    destruct (String.compare (r_file (o_range x)) (r_file (o_range y))); cbn; congruence.
Qed.

(* the collected origins are a permutation of what was found, ordered by file and position *)
Lemma sort_origins_perm l : Permutation l (sort_origins l).
Proof. apply stable_sort_perm. Qed.
