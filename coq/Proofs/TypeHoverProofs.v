(* Hover content for types and reference targets. *)
From Coq Require Import String List Bool Arith Ascii Permutation Lia.
From HV Require Import Base.Sexp Base.Str Base.SortSpec Model.Schema Model.TypeHover.
Import ListNotations.
Open Scope string_scope.

Lemma prefix_app_self (a b : string) : String.prefix a (a ++ b) = true.
Proof.
  induction a as [|c a IH]; cbn.
  - destruct b; reflexivity.
  - destruct (ascii_dec c c) as [_|N]; [exact IH|congruence].
Qed.

Lemma app_nonempty_l (a b : string) : a <> "" -> (a ++ b) <> "".
Proof. destruct a; [congruence|cbn; discriminate]. Qed.

Lemma friendly_nonempty t : t <> TNil -> friendly t <> "".
Proof. destruct t; cbn; try discriminate; congruence. Qed.

(* every type other than "no type" is described, and the description is not empty *)
Theorem type_content_defined f t lvl :
  t <> TNil -> exists c, type_content (S f) t lvl = Some c /\ c <> "".
Proof.
  intros Hn. destruct t as [| | | | |e|e|e|ts|ats]; try congruence; cbn [type_content];
    try (destruct lvl; eexists; (split; [reflexivity|cbn; discriminate])).
  destruct ats as [|a r].
  - eexists. split; [reflexivity|cbn; discriminate].
  - destruct lvl; eexists; (split; [reflexivity|cbn; discriminate]).
Qed.

(* the hover on a reference names the reference: it begins with the address in backquotes *)
Theorem reference_hover_names_the_address addr name t desc :
  String.prefix ("`" ++ addr ++ "`") (reference_hover_content addr name t desc) = true.
Proof.
  unfold reference_hover_content.
  set (shown := ("`" ++ addr ++ "`") ++ _).
  assert (H : String.prefix ("`" ++ addr ++ "`") shown = true) by (unfold shown; apply (prefix_app_self ("`" ++ addr ++ "`"))).
  destruct (String.eqb desc ""); [exact H|].
  unfold shown. rewrite (append_assoc ("`" ++ addr ++ "`")). apply (prefix_app_self ("`" ++ addr ++ "`")).
Qed.

(* ---- the attribute names of an object type are listed in byte order, whatever order the type's map is visited in *)

Lemma attr_asym x y : attr_ltb x y = true -> attr_ltb y x = false.
Proof.
  unfold attr_ltb, String.ltb. rewrite (String.compare_antisym (fst y)).
  destruct (String.compare (fst x) (fst y)); simpl; congruence.
Qed.

Lemma attr_le_trans x y z : le attr_ltb x y -> le attr_ltb y z -> le attr_ltb x z.
Proof.
  unfold le, attr_ltb. intros H1 H2.
  destruct (String.ltb (fst z) (fst x)) eqn:E; [|reflexivity]. exfalso.
  apply ltb_slt in E.
  destruct (slt_total (fst y) (fst x)) as [H|[H|H]].
  - apply ltb_slt in H. congruence.
  - rewrite H in H2. apply ltb_slt in E. congruence.
  - pose proof (slt_trans _ _ _ E H) as H3. apply ltb_slt in H3. congruence.
Qed.

Lemma sorted_attrs_perm ats ats' :
  NoDup (map fst ats) -> Permutation ats ats' -> sorted_attrs ats = sorted_attrs ats'.
Proof.
  intros Hnd Hp. unfold sorted_attrs. apply stable_sort_perm_invariant; [apply attr_asym|apply attr_le_trans| |exact Hp].
  intros a b Ha Hb. unfold attr_ltb, String.ltb.
  destruct (String.compare (fst a) (fst b)) eqn:E.
  - left. apply String.compare_eq_iff in E.
    clear - Hnd Ha Hb E. induction ats as [|x l IH]; [contradiction|].
    cbn in Hnd. inversion Hnd as [|? ? Hni Hnd']; subst.
    destruct Ha as [Ha|Ha], Hb as [Hb|Hb].
    + congruence.
    + subst x. exfalso. apply Hni. rewrite E. apply in_map. exact Hb.
    + subst x. exfalso. apply Hni. rewrite <- E. apply in_map. exact Ha.
    + apply IH; assumption.
  - right. left. reflexivity.
  - right. right. rewrite String.compare_antisym, E. reflexivity.
Qed.

Theorem object_content_independent_of_map_order f ats ats' lvl :
  NoDup (map fst ats) -> Permutation ats ats' ->
  type_content f (TObject ats) lvl = type_content f (TObject ats') lvl.
Proof.
  intros Hnd Hp. destruct f as [|f]; [reflexivity|]. cbn [type_content].
  destruct ats as [|a r].
  - apply Permutation_nil in Hp. subst. reflexivity.
  - destruct ats' as [|a' r']; [apply Permutation_sym, Permutation_nil in Hp; discriminate|].
    rewrite (sorted_attrs_perm (a :: r) (a' :: r') Hnd Hp). reflexivity.
Qed.

(* ... and they are in byte order *)
Theorem sorted_attrs_in_byte_order ats : Sorted.StronglySorted (le attr_ltb) (sorted_attrs ats).
Proof. unfold sorted_attrs. apply stable_sort_sorted; [apply attr_asym|apply attr_le_trans]. Qed.

Example type_content_example :
  type_content 5 (TObject [("name", (TStr, false)); ("Zeta", (TBool, false)); ("id", (TObject [("n", (TNum, true))], false)); ("tags", (TMap TStr, false))]) 0 =
  Some ("```" ++ nl ++ "{" ++ nl ++ "  Zeta = bool" ++ nl ++ "  id = {" ++ nl ++ "    n = optional, number" ++ nl ++ "  }" ++ nl ++
        "  name = string" ++ nl ++ "  tags = map of string" ++ nl ++ "}" ++ nl ++ "```" ++ nl ++ "_object_").
Proof. vm_compute. reflexivity. Qed.
