From Coq Require Import String List ZArith NArith Bool Lia.
From HV Require Import Model.CopyModel.
Import ListNotations.

(* ---- deep copy: same shape, fresh identities ---- *)
Lemma deep_spec v : forall next,
  erase (fst (deep next v)) = erase v /\
  (next <= snd (deep next v))%N /\
  (forall i, In i (cells (fst (deep next v))) -> (next <= i < snd (deep next v))%N).
Proof.
  induction v as [z| |id kids IH] using val_ind'; intros next.
  - cbn. split; [reflexivity|split; [lia|intros i []]].
  - cbn. split; [reflexivity|split; [lia|intros i []]].
  - rewrite deep_cell.
    assert (L : forall n, 
      map erase (fst (deep_list n kids)) = map erase kids /\
      (n <= snd (deep_list n kids))%N /\
      (forall i, In i (flat_map cells (fst (deep_list n kids))) -> (n <= i < snd (deep_list n kids))%N)).
    { induction IH as [|x r Hx _ IHr]; intros n; cbn [deep_list].
      - cbn. split; [reflexivity|split; [lia|intros i []]].
      - destruct (deep n x) as [x' n1] eqn:Ex. specialize (Hx n). rewrite Ex in Hx. cbn [fst snd] in Hx.
        destruct Hx as (E1 & L1 & C1).
        specialize (IHr n1). destruct (deep_list n1 r) as [r' n2]. cbn [fst snd] in *.
        destruct IHr as (E2 & L2 & C2).
        split; [cbn; now rewrite E1, E2|]. split; [lia|].
        intros j H. cbn [flat_map] in H. apply in_app_or in H.
        destruct H as [H|H]; [apply C1 in H|apply C2 in H]; lia. }
    specialize (L (next + 1)%N). destruct (deep_list (next + 1) kids) as [k n]. cbn [fst snd] in *.
    destruct L as (E & Lb & C). split; [cbn; now rewrite E|]. split; [lia|].
    intros j H. cbn [cells] in H. destruct H as [<-|H]; [lia|]. apply C in H. lia.
Qed.

Lemma below_cells b v : below b v -> forall i, In i (cells v) -> (i < b)%N.
Proof.
  induction v as [z| |id kids IH] using val_ind'; cbn [below cells];
    [intros _ i Hi; destruct Hi|intros _ i Hi; destruct Hi|].
  intros [Hid Hk] i [<-|Hin]; [exact Hid|].
  induction IH as [|x r Hx _ IHr]; cbn [flat_map] in Hin; [contradiction|].
  destruct Hk as [Hkx Hkr]. apply in_app_or in Hin. destruct Hin as [Hin|Hin]; auto.
Qed.

(* ---- writes only affect values that contain the written cell ---- *)
Lemma write_absent id f v : ~ In id (cells v) -> write id f v = v.
Proof.
  induction v as [z| |i kids IH] using val_ind'; cbn [write cells]; try reflexivity.
  intros Hn.
  assert (Hi : i <> id) by (intros ->; apply Hn; now left).
  assert (Hk : map (write id f) kids = kids).
  { assert (Hn' : ~ In id (flat_map cells kids)) by (intros H; apply Hn; now right).
    clear Hn Hi. induction IH as [|x r Hx _ IHr]; cbn [map flat_map] in *; [reflexivity|].
    rewrite Hx, IHr; auto; intros H; apply Hn'; apply in_or_app; auto. }
  rewrite Hk. destruct (N.eqb_spec i id); [contradiction|reflexivity].
Qed.

(* ---- the per-field theorem ---- *)
Definition well_kinded (k : kind) (v : val) : Prop :=
  match k with
  | K_immutable => cells v = []                      (* identities inside do not matter / do not exist *)
  | K_imm_slice | K_imm_map => match v with VCell _ kids => flat_map cells kids = [] | VNil => True | VImm _ => False end
  | K_node_ptr | K_node_slice | K_node_map => True
  end.

Lemma copy_field_equal k m next v :
  adequate k m = true -> well_kinded k v -> erase (copy_field m next v) = erase v.
Proof.
  intros Ha Hw. destruct m; cbn [copy_field].
  - destruct k; discriminate.
  - reflexivity.
  - destruct v; reflexivity.
  - apply deep_spec.
Qed.

Lemma copy_field_independent k m next v :
  adequate k m = true -> well_kinded k v -> below next v ->
  forall i, In i (cells (copy_field m next v)) -> ~ In i (cells v).
Proof.
  intros Ha Hw Hb i Hi Hin. pose proof (below_cells _ _ Hb i Hin) as Hlt.
  destruct m; cbn [copy_field] in Hi.
  - destruct k; discriminate.
  - (* shared: only allowed for immutable kinds, which have no cells *)
    destruct k; try discriminate. cbn in Hw. rewrite Hw in Hin. contradiction.
  - (* shallow: containers of immutables only *)
    destruct k; try discriminate;
      try (cbn in Hw; rewrite Hw in Hin; contradiction);
      (destruct v as [z| |id kids]; [contradiction|destruct Hi|];
       cbn in Hw; cbn [cells] in Hi; rewrite Hw in Hi; destruct Hi as [<-|[]]; lia).
  - destruct (deep_spec v next) as (_ & _ & C). apply C in Hi. lia.
Qed.

(* mutating the copy through any of its cells leaves the original unchanged, and vice versa *)
Theorem copy_field_isolated k m next v :
  adequate k m = true -> well_kinded k v -> below next v ->
  (forall i f, In i (cells (copy_field m next v)) -> write i f v = v) /\
  (forall i f, In i (cells v) -> write i f (copy_field m next v) = copy_field m next v).
Proof.
  intros Ha Hw Hb. split; intros i f Hi; apply write_absent.
  - eapply copy_field_independent; eauto.
  - intros Hc. eapply copy_field_independent; eauto.
Qed.

(* struct level: a struct is a list of (kind, mode, value); Copy() maps copy_field over it *)
Definition struct_ok (fs : list (kind * mode * val)) : Prop :=
  Forall (fun f => let '(k, m, v) := f in adequate k m = true /\ well_kinded k v) fs.

Theorem struct_copy_equal next fs :
  struct_ok fs ->
  map (fun f => let '(k, m, v) := f in erase (copy_field m next v)) fs =
  map (fun f => let '(k, m, v) := f in erase v) fs.
Proof.
  induction 1 as [|[[k m] v] r [Ha Hw] _ IH]; cbn; [reflexivity|].
  rewrite IH. f_equal. eapply copy_field_equal; eauto.
Qed.

(* non-vacuity: a pointer to a node holding a slice of two nodes *)
Example deep_example :
  let v := VCell 1 [VCell 2 [VCell 3 [VImm 7]; VCell 4 [VImm 8]]] in
  below 10 v /\ erase (copy_field M_deep 10 v) = erase v /\
  cells (copy_field M_deep 10 v) = [10; 11; 12; 13]%N.
Proof. cbn. repeat split; lia. Qed.
