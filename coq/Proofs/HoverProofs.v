From Coq Require Import String List ZArith Bool Lia.
From HV Require Import Base.Sexp Base.Str Base.Pos Model.Addr Model.DepKeys Model.Schema Model.Ast Model.Merge Model.Completion Model.Hover.
Import ListNotations.

Section H.
  Variable p : pos.

  Lemma hover_attrs_contains attrs bs c r :
    hover_attrs p attrs bs = Some (HHover c r) -> contains_pos r p = true.
  Proof.
    induction attrs as [|a rest IH]; cbn [hover_attrs]; [discriminate|].
    destruct (contains_pos (a_rng a) p) eqn:E; [|exact IH].
    destruct (hover_attr_schema bs (a_name a)); [|discriminate].
    destruct (contains_pos (a_name_rng a) p).
    - intros H; inversion H; subst. exact E.
    - destruct (contains_pos (expr_range (a_expr a)) p); [discriminate|exact IH].
  Qed.

  Lemma hover_labels_contains k sc : forall rngs i c r,
    hover_labels p k sc i rngs = Some (HHover c r) -> contains_pos r p = true.
  Proof.
    induction rngs as [|lr rest IH]; intros i c r; cbn [hover_labels]; [discriminate|].
    destruct (contains_pos lr p) eqn:E; [|apply IH].
    destruct (Nat.leb _ i); [discriminate|]. intros H; inversion H; subst. exact E.
  Qed.

  (* whenever body-level hover returns data, its range contains the cursor - at any nesting depth *)
  Lemma hover_range_contains_cursor b0 : forall bs c r,
    hover_body p b0 bs = HHover c r -> contains_pos r p = true.
  Proof.
    apply (body_ind'
      (fun b => forall bs c r, hover_body p b bs = HHover c r -> contains_pos r p = true)
      (fun k => forall bs c r, hover_body p (k_body k) bs = HHover c r -> contains_pos r p = true)).
    - intros attrs blocks rg e IH bs c r. cbn [hover_body b_attrs b_blocks].
      destruct (hover_attrs p attrs bs) as [o|] eqn:EA.
      + intros ->. eapply hover_attrs_contains; eauto.
      + match goal with |- context [match ?F blocks with _ => _ end] => set (BL := F) end.
        assert (G : forall o, BL blocks = Some o -> forall c r, o = HHover c r -> contains_pos r p = true).
        { clear EA. induction IH as [|k rest Hk _ IHr]; intros o Ho c0 r0 ->; cbn in Ho; [discriminate|].
          destruct (contains_pos (k_rng k) p); [|eapply IHr; eauto].
          destruct (alookup (k_type k) (bs_blocks bs)) as [sc|]; [|discriminate].
          destruct (contains_pos (k_type_rng k) p) eqn:ET; [inversion Ho; subst; exact ET|].
          destruct (hover_labels p k sc 0 (k_label_rngs k)) as [ol|] eqn:EL.
          { inversion Ho; subst. eapply hover_labels_contains; eauto. }
          destruct (is_pos_outside_body k p); [discriminate|].
          destruct k as [t ls lrs tr op cl rr d kb]. cbn [k_body] in *.
          destruct (contains_pos (b_rng kb) p); [|eapply IHr; eauto].
          destruct (merge_block_body_schemas sc _) as [m res]. inversion Ho as [Ho']. eapply Hk; eauto. }
        destruct (BL blocks) as [o|] eqn:EB; [|discriminate].
        intros ->. eapply G; eauto.
    - intros t ls lrs tr o c r d kb IH. exact IH.
  Qed.
End H.

(* the text shown for a dependency-key label uses the dependent body (static + dependent schema)
   whenever the lookup succeeds fully or partially *)
Lemma label_hover_uses_dependent_body i k s ls b dk res :
  nth_error (bk_labels s) i = Some ls -> ls_depkey ls = true ->
  dependent_body_schema s k = (Some b, dk, res) -> (res = LookupSuccessful \/ res = LookupPartiallySuccessful) ->
  bs_hover_url b = ""%string ->
  exists tail, hover_label i k s = Some (("`" ++ nth i (k_labels k) "" ++ "`" ++ tail)%string).
Proof.
  intros Hl Hd Hdep Hres Hu. unfold hover_label. rewrite Hl, Hd, Hdep.
  destruct Hres as [-> | ->]; rewrite Hu; cbn; eexists; reflexivity.
Qed.
