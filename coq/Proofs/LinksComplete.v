(* Documentation links (Model/Links.v): every label and every written attribute that selected a body having a link
   carries that link (the converse of Proofs/LinksProofs.v). *)
From Coq Require Import String List ZArith Bool.
From HV Require Import Base.Sexp Base.Pos Model.Addr Model.DepKeys Model.Schema Model.Ast Model.Merge Model.Links.
Import ListNotations.

Section L.
  Variable url : string -> option string.

  Lemma resolved_cases (res : lookup_result) : res <> LookupFailed ->
    res = LookupSuccessful \/ res = LookupPartiallySuccessful \/ res = NoDependentKeys.
  Proof. destruct res; intro H; auto. contradiction. Qed.

  Theorem selecting_label_carries_the_link ks k dep dk res u tip u' ld r :
    dependent_body_schema ks k = (Some dep, dk, res) -> res <> LookupFailed ->
    bs_docs dep = Some (u, tip) -> url u = Some u' ->
    In ld (dk_labels dk) -> nth_error (k_label_rngs k) (Z.to_nat (ld_index ld)) = Some r ->
    In {| lk_uri := u'; lk_tooltip := tip; lk_rng := r |} (block_links url ks k).
  Proof.
    intros Hd Hr Hdoc Hu Hin Hn. unfold block_links. rewrite Hd.
    assert (G : In {| lk_uri := u'; lk_tooltip := tip; lk_rng := r |}
      match bs_docs dep with
      | Some (u0, tip0) =>
          match url u0 with
          | Some u'0 =>
              (flat_map (fun ld0 => match nth_error (k_label_rngs k) (Z.to_nat (ld_index ld0)) with
                                    | Some r0 => [{| lk_uri := u'0; lk_tooltip := tip0; lk_rng := r0 |}] | None => [] end) (dk_labels dk)
               ++ flat_map (fun ak => match find_attr (ak_name ak) (b_attrs (k_body k)) with
                                      | Some a => [{| lk_uri := u'0; lk_tooltip := tip0; lk_rng := expr_range (a_expr a) |}] | None => [] end) (dk_attrs dk))%list
          | None => []
          end
      | None => []
      end).
    { rewrite Hdoc, Hu. apply in_or_app. left. apply in_flat_map. exists ld. split; [exact Hin|]. rewrite Hn. left. reflexivity. }
    destruct (resolved_cases res Hr) as [->|[->| ->]]; exact G.
  Qed.

  Theorem selecting_attribute_carries_the_link ks k dep dk res u tip u' ak a :
    dependent_body_schema ks k = (Some dep, dk, res) -> res <> LookupFailed ->
    bs_docs dep = Some (u, tip) -> url u = Some u' ->
    In ak (dk_attrs dk) -> find_attr (ak_name ak) (b_attrs (k_body k)) = Some a ->
    In {| lk_uri := u'; lk_tooltip := tip; lk_rng := expr_range (a_expr a) |} (block_links url ks k).
  Proof.
    intros Hd Hr Hdoc Hu Hin Hf. unfold block_links. rewrite Hd.
    assert (G : In {| lk_uri := u'; lk_tooltip := tip; lk_rng := expr_range (a_expr a) |}
      match bs_docs dep with
      | Some (u0, tip0) =>
          match url u0 with
          | Some u'0 =>
              (flat_map (fun ld0 => match nth_error (k_label_rngs k) (Z.to_nat (ld_index ld0)) with
                                    | Some r0 => [{| lk_uri := u'0; lk_tooltip := tip0; lk_rng := r0 |}] | None => [] end) (dk_labels dk)
               ++ flat_map (fun ak0 => match find_attr (ak_name ak0) (b_attrs (k_body k)) with
                                       | Some a0 => [{| lk_uri := u'0; lk_tooltip := tip0; lk_rng := expr_range (a_expr a0) |}] | None => [] end) (dk_attrs dk))%list
          | None => []
          end
      | None => []
      end).
    { rewrite Hdoc, Hu. apply in_or_app. right. apply in_flat_map. exists ak. split; [exact Hin|]. rewrite Hf. left. reflexivity. }
    destruct (resolved_cases res Hr) as [->|[->| ->]]; exact G.
  Qed.
End L.
