(* C18 for documentation links: the links of the translated file are the translated links. *)
From Coq Require Import String List ZArith Bool Lia.
From HV Require Import Base.Sexp Base.Pos Model.Addr Model.DepKeys Model.Schema Model.Ast Model.Merge Model.Validate
                       Model.BodyQueries Model.Shift Model.Links Proofs.ShiftProofs.
Import ListNotations.
Open Scope list_scope.

Section P.
  Variable file : string.
  Variable at_ dl db : Z.
  Variable url : string -> option string.
  Notation sr := (shift_range file at_ dl db).
  Notation sa := (shift_attr file at_ dl db).
  Notation sb := (shift_body file at_ dl db).
  Notation sk := (shift_block file at_ dl db).
  Notation se := (shift_expr file at_ dl db).

  Definition shift_link (l : link) : link := {| lk_uri := lk_uri l; lk_tooltip := lk_tooltip l; lk_rng := sr (lk_rng l) |}.

  Lemma expr_range_shift' e : expr_range (se e) = sr (expr_range e).
  Proof. destruct e; reflexivity. Qed.

  Lemma k_label_rngs_shift k : k_label_rngs (sk k) = map sr (k_label_rngs k).
  Proof. destruct k; reflexivity. Qed.

  Lemma a_expr_shift a : a_expr (sa a) = se (a_expr a).
  Proof. destruct a; reflexivity. Qed.

  Lemma block_links_shift ks k : block_links url ks (sk k) = map shift_link (block_links url ks k).
  Proof.
    unfold block_links. rewrite (dependent_body_schema_shift file at_ dl db).
    destruct (dependent_body_schema ks k) as [[[dep|] dk] res]; [|destruct res; reflexivity].
    assert (H : match bs_docs dep with
                | Some (u, tip) =>
                    match url u with
                    | Some u' =>
                        flat_map (fun ld => match nth_error (k_label_rngs (sk k)) (Z.to_nat (ld_index ld)) with
                                            | Some r => [{| lk_uri := u'; lk_tooltip := tip; lk_rng := r |}] | None => [] end) (dk_labels dk)
                        ++ flat_map (fun ak => match find_attr (ak_name ak) (b_attrs (k_body (sk k))) with
                                               | Some a => [{| lk_uri := u'; lk_tooltip := tip; lk_rng := expr_range (a_expr a) |}] | None => [] end) (dk_attrs dk)
                    | None => []
                    end
                | None => []
                end
                = map shift_link
                  match bs_docs dep with
                  | Some (u, tip) =>
                      match url u with
                      | Some u' =>
                          flat_map (fun ld => match nth_error (k_label_rngs k) (Z.to_nat (ld_index ld)) with
                                              | Some r => [{| lk_uri := u'; lk_tooltip := tip; lk_rng := r |}] | None => [] end) (dk_labels dk)
                          ++ flat_map (fun ak => match find_attr (ak_name ak) (b_attrs (k_body k)) with
                                                 | Some a => [{| lk_uri := u'; lk_tooltip := tip; lk_rng := expr_range (a_expr a) |}] | None => [] end) (dk_attrs dk)
                      | None => []
                      end
                  | None => []
                  end).
    { destruct (bs_docs dep) as [[u tip]|]; [|reflexivity]. destruct (url u) as [u'|]; [|reflexivity].
      rewrite map_app. f_equal.
      - induction (dk_labels dk) as [|ld l IH]; cbn [flat_map map]; [reflexivity|].
        rewrite map_app, <- IH. f_equal. rewrite k_label_rngs_shift, nth_error_map.
        destruct (nth_error (k_label_rngs k) _); reflexivity.
      - induction (dk_attrs dk) as [|ak l IH]; cbn [flat_map map]; [reflexivity|].
        rewrite map_app, <- IH. f_equal.
        rewrite (k_body_shift file at_ dl db), (b_attrs_shift file at_ dl db), (find_attr_shift file at_ dl db).
        destruct (find_attr (ak_name ak) (b_attrs (k_body k))) as [a|]; cbn [option_map]; [|reflexivity].
        cbn [map shift_link lk_rng lk_uri lk_tooltip]. rewrite a_expr_shift, expr_range_shift'. reflexivity. }
    destruct res; try reflexivity; exact H.
  Qed.

  (* inserting lines changes nothing in the links except their positions *)
  Theorem links_in_body_equivariant bs b :
    links_in_body url bs (sb b) = map shift_link (links_in_body url bs b).
  Proof.
    unfold links_in_body. rewrite (b_blocks_shift file at_ dl db).
    induction (b_blocks b) as [|k l IH]; cbn [map flat_map]; [reflexivity|].
    rewrite map_app, <- IH. f_equal. rewrite (k_type_shift file at_ dl db).
    destruct (alookup (k_type k) (bs_blocks bs)) as [ks|]; [apply block_links_shift | reflexivity].
  Qed.
End P.
