(* Body completion offers nothing twice, and an offered schema attribute can still be declared
   (Model/Completion.v, Proofs/CompletionProofs.v). *)
From Coq Require Import String List ZArith Bool Lia Permutation.
From HV Require Import Base.Sexp Base.Str Base.Pos Base.SortSpec Model.Addr Model.DepKeys Model.Schema Model.Ast Model.Merge Model.Completion Proofs.CompletionProofs.
Import ListNotations.

Lemma NoDup_app_intro {A} (l1 l2 : list A) :
  NoDup l1 -> NoDup l2 -> (forall x, In x l1 -> ~ In x l2) -> NoDup (l1 ++ l2).
Proof.
  induction l1 as [|a l1 IH]; intros H1 H2 Hd; cbn; [exact H2|].
  inversion H1 as [|? ? Hn Hr]; subst. constructor.
  - intro Hin. apply in_app_or in Hin as [Hin|Hin]; [contradiction | exact (Hd a (or_introl eq_refl) Hin)].
  - apply IH; [exact Hr | exact H2 | intros x Hx; apply Hd; right; exact Hx].
Qed.

Lemma NoDup_map_filter_fst {A B} (f : string * A -> B) (p : string * A -> bool) (l : list (string * A)) :
  (forall x y, f x = f y -> fst x = fst y) ->
  NoDup (map fst l) -> NoDup (map f (filter p l)).
Proof.
  intros Hf. induction l as [|a l IH]; intro H; cbn; [constructor|].
  inversion H as [|? ? Hn Hr]; subst. destruct (p a).
  - cbn. constructor; [|apply IH; exact Hr].
    intro Hin. apply in_map_iff in Hin as (y & Hy & Hin). apply filter_In in Hin as (Hin & _).
    apply Hn. apply in_map_iff. exists y. split; [symmetry; apply Hf; symmetry; exact Hy | exact Hin].
  - apply IH; exact Hr.
Qed.

Definition ident (c : cand) : string * cand_kind := (c_label c, c_kind c).

Section Body.
  Variable b : body.
  Variable bs : body_schema.
  Variable prefix : string.
  Variable edit : range.

  Let A := allowed b bs prefix edit.

  Lemma in_ext_cands c : In c (ext_cands b bs prefix edit) ->
    c_kind c = CKAttr /\ is_ext_name bs (c_label c) = true.
  Proof.
    unfold ext_cands. intro H. apply in_app_or in H as [H|H].
    - destruct (ext_has ext_count (bs_ext bs)) eqn:E; cbn [andb] in H; [|destruct H].
      destruct (_ && _) in H; [|destruct H]. destruct H as [<-|[]]. cbn. unfold is_ext_name. rewrite E. auto.
    - destruct (ext_has ext_for_each (bs_ext bs)) eqn:E; cbn [andb] in H; [|destruct H].
      destruct (_ && _) in H; [|destruct H]. destruct H as [<-|[]]. cbn. unfold is_ext_name. rewrite E. cbn.
      rewrite orb_true_r. auto.
  Qed.

  Lemma ext_cands_nodup : NoDup (map ident (ext_cands b bs prefix edit)).
  Proof.
    unfold ext_cands. destruct (_ && _ && _); destruct (_ && _ && _); cbn; repeat constructor; cbn; try tauto.
    intros [H|[]]. discriminate H.
  Qed.

  (* nothing is offered twice: no two candidates share name and kind (attribute / block), provided the schema's
     attribute names and block type names are unique (they are the keys of Go maps) *)
  Theorem allowed_nodup :
    NoDup (map fst (bs_attrs bs)) -> NoDup (map fst (bs_blocks bs)) -> NoDup (map ident A).
  Proof.
    intros Ha Hb. unfold A, allowed. rewrite !map_app.
    apply NoDup_app_intro; [apply ext_cands_nodup | |].
    - apply NoDup_app_intro.
      + rewrite map_map. apply NoDup_map_filter_fst; [|exact Ha]. intros x y H. injection H as H. exact H.
      + apply NoDup_app_intro.
        * unfold any_cands. destruct (bs_attrs bs); [|constructor]. destruct (bs_any bs); [|constructor].
          destruct (String.eqb prefix ""); cbn; repeat constructor. tauto.
        * rewrite map_map. apply NoDup_map_filter_fst; [|exact Hb]. intros x y H. injection H as H. exact H.
        * intros x Hx Hy. apply in_map_iff in Hx as (c & <- & Hc). apply in_map_iff in Hy as (d & Hd & Hin).
          apply in_map_iff in Hin as (q & <- & _).
          unfold any_cands in Hc. destruct (bs_attrs bs); [|destruct Hc]. destruct (bs_any bs); [|destruct Hc].
          destruct (String.eqb prefix ""); [|destruct Hc]. destruct Hc as [<-|[]]. discriminate Hd.
      + intros x Hx Hy. apply in_map_iff in Hx as (c & <- & Hc). apply in_map_iff in Hc as (p & <- & Hp).
        apply in_app_or in Hy as [Hy|Hy].
        * apply in_map_iff in Hy as (d & Hd & Hin). unfold any_cands in Hin.
          destruct (bs_attrs bs) eqn:E; [destruct Hp|destruct Hin].
        * apply in_map_iff in Hy as (d & Hd & Hin). apply in_map_iff in Hin as (q & <- & _). discriminate Hd.
    - intros x Hx Hy. apply in_map_iff in Hx as (c & <- & Hc). apply in_ext_cands in Hc as (Hk & He).
      apply in_app_or in Hy as [Hy|Hy]; [|apply in_app_or in Hy as [Hy|Hy]].
      + apply in_map_iff in Hy as (d & Hd & Hin). apply in_map_iff in Hin as (p & <- & Hp).
        apply filter_In in Hp as (_ & Hok). unfold attr_ok in Hok.
        injection Hd as Hl _. cbn in Hl. rewrite Hl in Hok. rewrite He in Hok. discriminate Hok.
      + apply in_map_iff in Hy as (d & Hd & Hin). unfold any_cands in Hin.
        destruct (bs_attrs bs); [|destruct Hin]. destruct (bs_any bs); [|destruct Hin].
        destruct (String.eqb prefix ""); [|destruct Hin]. destruct Hin as [<-|[]].
        injection Hd as Hl _. cbn in Hl. rewrite <- Hl in He. unfold is_ext_name in He. cbn in He.
        rewrite !andb_false_r in He. discriminate He.
      + apply in_map_iff in Hy as (d & Hd & Hin). apply in_map_iff in Hin as (q & <- & _).
        injection Hd as _ Hk'. cbn in Hk'. rewrite Hk in Hk'. discriminate Hk'.
  Qed.

  (* an offered attribute of the schema can still be declared: it is not written in the body yet, it is not
     read-only (computed without being optional), and its name starts with the typed prefix *)
  Theorem offered_schema_attribute_declarable p :
    In p (filter (attr_ok b bs prefix) (bs_attrs bs)) ->
    In p (bs_attrs bs) /\
    find_attr (fst p) (b_attrs b) = None /\
    (af_computed (as_flags (snd p)) = true -> af_optional (as_flags (snd p)) = true) /\
    has_prefix prefix (fst p) = true.
  Proof.
    intro H. apply filter_In in H as (Hin & Hok). split; [exact Hin|].
    unfold attr_ok in Hok. apply andb_prop in Hok as (Hok & Hp). apply andb_prop in Hok as (_ & Hd).
    unfold is_attr_declarable in Hd. apply andb_prop in Hd as (Hc & Hf).
    split; [destruct (find_attr (fst p) (b_attrs b)); [discriminate Hf | reflexivity]|].
    split; [|exact Hp]. intro Hcomp. rewrite Hcomp in Hc. cbn in Hc. destruct (af_optional (as_flags (snd p))); [reflexivity|discriminate Hc].
  Qed.

  (* a list marked complete offers nothing twice *)
  Theorem complete_list_nodup max :
    NoDup (map fst (bs_attrs bs)) -> NoDup (map fst (bs_blocks bs)) ->
    cs_complete (body_schema_candidates max b bs prefix edit) = true ->
    NoDup (map ident (cs_list (body_schema_candidates max b bs prefix edit))).
  Proof.
    intros Ha Hb Hc. rewrite (complete_list_is_exact max b bs prefix edit Hc).
    eapply Permutation_NoDup; [apply Permutation_map; apply stable_sort_perm | apply allowed_nodup; assumption].
  Qed.
End Body.
