(* Inferred nested targets of blocks whose body is data (collectInferredReferenceTargetsForBody, modelled
   in Model/TargetsBody.v): every nested target is declared exactly one step below its parent - attribute
   name, block type, position of a list block among the blocks of its type, first label of a map block -
   at any depth.  The range of the first element of a list / map of blocks is that of the whole
   collection (the pointer alias of the implementation): refuted as "the element's own block" by a witness. *)
From Coq Require Import String List ZArith Arith Bool Lia Permutation.
From HV Require Import Base.Sexp Base.Str Base.SortSpec Base.Pos Model.Addr Model.DepKeys Model.Schema Model.Ast
                       Model.Merge Model.Ref Model.Collect Model.ValueTargets Model.TargetsBody
                       Proofs.ValueTargetsProofs.
Import ListNotations.
Open Scope string_scope.
Open Scope list_scope.

(* [deep a t]: t is declared at a and every nested target one step below its parent, recursively *)
Inductive deep : address -> target -> Prop :=
| Deep a la fr sc r df ty nm nested :
    Forall (fun n => exists s, deep (a ++ [s]) n) nested ->
    deep a (Target a la fr sc r df ty nm nested).

Fixpoint good_deep a o t (H : good a o t) {struct H} : deep a t.
Proof.
  destruct H as [a outer la fr sc r df ty nm nested Hin HF].
  constructor.
  revert HF. generalize r. intros r0 HF.
  induction HF as [|n l (s & Hg) _ IH]; constructor; [|exact IH].
  exists s. exact (good_deep _ _ _ Hg).
Qed.

Lemma sorted_nested_Forall (P : target -> Prop) l : Forall P l -> Forall P (sorted_nested l).
Proof.
  unfold sorted_nested. rewrite !Forall_forall. intros H x Hx. apply H.
  eapply Permutation_in; [apply Permutation_sym, stable_sort_perm|exact Hx].
Qed.

(* no Reference constraint that declares targets itself, anywhere in the schema of the data body *)
Fixpoint bs_no_ref (fuel : nat) (obs : option body_schema) : bool :=
  match fuel with
  | O => true
  | S n =>
      match obs with
      | None => true
      | Some bs => forallb (fun p => no_ref_decl (as_cons (snd p))) (bs_attrs bs)
                   && forallb (fun p => bs_no_ref n (bk_body (snd p))) (bs_blocks bs)
      end
  end.

Section Inferred.
  Variable exprs : list (range * texpr).
  Variable nfc : list (string * string).
  Variable gaps : list (Z * Z).
  Variable scope : string.
  Variable self_refs : bool.

  (* what the parser guarantees about the attribute values *)
  Hypothesis Hexprs : forall r e, lookup_rng exprs r = Some e -> wf_expr e /\ inside (e_rng e) r.

  Lemma mapi_singletons {A} (f : nat -> A -> option (list target)) (P : nat -> target -> Prop) l : forall i ts,
    concat_opt (mapi_from f i l) = Some ts ->
    (forall j x y t, nth_error l j = Some x -> f (i + j)%nat x = Some y -> In t y -> P (i + j)%nat t) ->
    Forall (fun t => exists j, P j t) ts.
  Proof.
    induction l as [|a r IH]; intros i ts H HP; cbn [mapi_from concat_opt] in H.
    - injection H as <-. constructor.
    - destruct (f i a) as [y|] eqn:Ef; [|discriminate].
      destruct (concat_opt (mapi_from f (S i) r)) as [z|] eqn:Er; [|discriminate]. injection H as <-.
      apply Forall_app. split.
      + apply Forall_forall. intros t Ht. exists (i + 0)%nat. eapply (HP 0%nat a y t); [reflexivity| |exact Ht].
        rewrite Nat.add_0_r. exact Ef.
      + apply (IH (S i) z Er). intros j x y' t Hj Hf Ht. replace (S i + j)%nat with (i + S j)%nat in * by lia.
        eapply (HP (S j) x y' t); [exact Hj|exact Hf|exact Ht].
  Qed.

  Theorem inferred_one_step_below fuel : forall addr b obs sr sa ts,
    bs_no_ref fuel obs = true ->
    inferred exprs nfc gaps scope self_refs fuel addr b obs sr sa = Some ts ->
    Forall (fun t => exists s, deep (addr ++ [s]) t) ts.
  Proof.
    induction fuel as [|n IH]; intros addr b obs sr sa ts Hs H; [discriminate|].
    cbn [inferred] in H. destruct obs as [bs|]; [|injection H as <-; constructor].
    cbn [bs_no_ref] in Hs. apply andb_prop in Hs as (Hattrs & Hblocks).
    rewrite forallb_forall in Hattrs, Hblocks.
    match type of H with (match ?A with _ => _ end) = _ => destruct A as [x|] eqn:Ea; [|discriminate] end.
    match type of H with (match ?B with _ => _ end) = _ => destruct B as [y|] eqn:Eb; [|discriminate] end.
    injection H as <-. apply Forall_app. split.
    - (* attributes *)
      eapply concat_opt_Forall; [exact Ea|]. apply Forall_forall. intros o Ho zz ->.
      apply in_map_iff in Ho as (p & Hp & Hin). specialize (Hattrs p Hin).
      destruct (skip_attr (as_cons (snd p))); [injection Hp as <-; constructor|].
      set (ctxf := fun w : option attr =>
             {| tc_name := ""; tc_scope := scope; tc_as_type := true; tc_as_ref := false;
                tc_addr := addr ++ [SAttr (fst p)];
                tc_local := if self_refs then Some (sa ++ [SAttr (fst p)]) else None;
                tc_from := if self_refs then (if self_refs then match sr with Some r => Some r | None => Some (b_rng b) end else sr) else None;
                tc_rng := option_map a_rng w; tc_def := option_map a_name_rng w |}) in *.
      destruct (find_attr (fst p) (b_attrs b)) as [a|] eqn:Ef.
      + destruct (lookup_rng exprs (a_rng a)) as [e|] eqn:El; [|discriminate].
        destruct (Hexprs _ _ El) as (Hw & Hi).
        pose proof (value_targets_inv _ _ _ _ _ Hattrs Hw Hp) as Hinv. cbn [inv] in Hinv.
        specialize (Hinv Hi). eapply Forall_impl; [|exact Hinv].
        intros t Hg. exists (SAttr (fst p)). exact (good_deep _ _ _ Hg).
      + assert (Hw : wf_expr (EEmpty (missing_item_range b))) by (constructor; cbn; lia).
        pose proof (value_targets_inv _ _ _ _ _ Hattrs Hw Hp) as Hinv. cbn [inv] in Hinv.
        specialize (Hinv (inside_refl _)). eapply Forall_impl; [|exact Hinv].
        intros t Hg. exists (SAttr (fst p)). exact (good_deep _ _ _ Hg).
    - (* blocks *)
      eapply concat_opt_Forall; [exact Eb|]. apply Forall_forall. intros o Ho zz ->.
      apply in_map_iff in Ho as (p & Hp & Hin). specialize (Hblocks p Hin).
      destruct (filter (fun k => String.eqb (k_type k) (fst p)) (b_blocks b)) as [|first others] eqn:Ebl;
        [injection Hp as <-; constructor|].
      destruct (attr_types nfc n (bk_body (snd p))) as [ot|]; [|discriminate].
      destruct (bk_type (snd p)).
      + injection Hp as <-. constructor.
      + (* list *)
        match type of Hp with (match ?C with _ => _ end) = _ => destruct C as [elems|] eqn:Ee; [|discriminate] end.
        injection Hp as <-. constructor; [|constructor]. exists (SAttr (fst p)). constructor.
        apply sorted_nested_Forall.
        eapply Forall_impl; [|eapply (mapi_singletons _ (fun j t => deep ((addr ++ [SAttr (fst p)]) ++ [SIdxNum (Z.of_nat j)]) t) _ 0 _ Ee)].
        * intros t (j & Hd). exists (SIdxNum (Z.of_nat j)). exact Hd.
        * intros j k yy t Hj Hf Ht. cbn [Nat.add] in *.
          match type of Hf with (match ?D with _ => _ end) = _ => destruct D as [nested|] eqn:En; [|discriminate] end.
          injection Hf as <-. destruct Ht as [<-|[]]. constructor. apply sorted_nested_Forall.
          exact (IH _ _ _ _ _ _ Hblocks En).
      + (* map *)
        destruct (filter (fun k => match k_labels k with [] => false | _ => true end) (first :: others)) as [|kfirst kothers] eqn:Ek.
        * injection Hp as <-. constructor; [|constructor]. exists (SAttr (fst p)). constructor. constructor.
        * match type of Hp with (match ?C with _ => _ end) = _ => destruct C as [elems|] eqn:Ee; [|discriminate] end.
          injection Hp as <-. constructor; [|constructor]. exists (SAttr (fst p)). constructor.
          apply sorted_nested_Forall.
          eapply Forall_impl; [|eapply (mapi_singletons _ (fun _ t => exists s, deep ((addr ++ [SAttr (fst p)]) ++ [s]) t) _ 0 _ Ee)].
          -- intros t (j & Hd). exact Hd.
          -- intros j k yy t Hj Hf Ht. cbn [Nat.add] in *.
             match type of Hf with (match ?D with _ => _ end) = _ => destruct D as [nested|] eqn:En; [|discriminate] end.
             injection Hf as <-. destruct Ht as [<-|[]].
             eexists. constructor. apply sorted_nested_Forall.
             exact (IH _ _ _ _ _ _ Hblocks En).
      + (* object *)
        match type of Hp with (match ?C with _ => _ end) = _ => destruct C as [nested|] eqn:En; [|discriminate] end.
        injection Hp as <-. constructor; [|constructor]. exists (SAttr (fst p)). constructor.
        apply sorted_nested_Forall. exact (IH _ _ _ _ _ _ Hblocks En).
      + (* set *)
        injection Hp as <-. constructor; [|constructor]. exists (SAttr (fst p)). constructor. constructor.
  Qed.

  (* no adjacent blocks, no widening: the collection's range is the first block's *)
  Lemma widen_without_gaps cur rest : (forall r, In r rest -> is_gap gaps cur r = false) -> widen gaps cur rest = cur.
  Proof.
    induction rest as [|r rs IH]; intros H; cbn [widen]; [reflexivity|].
    rewrite (H r (or_introl eq_refl)). apply IH. intros r' Hr'. apply H. now right.
  Qed.
End Inferred.

(* ---------------- the first element of a list of blocks: its range is not its block ---------------- *)
Definition rb (a b : Z) : range :=
  {| r_file := "main.tf"; r_start := {| p_line := 1; p_col := 1; p_byte := a |}; r_end := {| p_line := 1; p_col := 1; p_byte := b |} |}.

Definition item_schema : block_schema := BlockSchema [] BTList (Some empty_body) [] 0 0 false "" [] nil_sexp.
Definition data_body_schema : body_schema := BodySchema [] None [("item", item_schema)] None None "" "" "" [] [] nil_sexp.
Definition item_block (from to : Z) : block :=
  Block "item" [] [] (rb from (from + 4)) (rb (from + 5) (from + 6)) (rb (to - 1) to) (rb from to) (rb from (from + 4))
        (Body [] [] (rb (from + 5) to) (rb (to - 1) to)).
(* res { item {} item {} }: two adjacent blocks *)
Definition data_body : body := Body [] [item_block 10 20; item_block 21 31] (rb 5 33) (rb 32 33).

Theorem first_list_element_range_refuted :
  exists coll e0,
    inferred [] [] [(20, 21)%Z] "" false 5 [SRoot "res"; SAttr "x"] data_body (Some data_body_schema) None [] = Some [coll] /\
    nth_error (t_nested coll) 0 = Some e0 /\
    t_addr e0 = [SRoot "res"; SAttr "x"; SAttr "item"; SIdxNum 0] /\
    t_rng e0 = Some (rb 10 31) /\                    (* ... the range of the whole collection *)
    k_rng (item_block 10 20) = rb 10 20.             (* ... not that of the first block *)
Proof. eexists. eexists. split; [vm_compute; reflexivity|]. repeat split. Qed.

(* every further element does have its block's range: by definition of the model, checked on the witness *)
Example second_list_element_has_its_block_range :
  exists coll e1,
    inferred [] [] [(20, 21)%Z] "" false 5 [SRoot "res"; SAttr "x"] data_body (Some data_body_schema) None [] = Some [coll] /\
    nth_error (t_nested coll) 1 = Some e1 /\ t_rng e1 = Some (k_rng (item_block 21 31)).
Proof. eexists. eexists. split; [vm_compute; reflexivity|]. repeat split. Qed.
